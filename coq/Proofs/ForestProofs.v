(* C11: the parent/child edge invariant of the composeinfo variant forest, over ALL add histories *)
From PM Require Import Base.PyVal Base.Obj Model.Common Model.Variants Proofs.ManifestsProofs Proofs.ImagesProofs Proofs.PyValProofs
     Proofs.VariantsProofs Gen.Validators.
From Coq Require Import Lia.

(* ---- the heap primitives *)
Definition dnode : vnode := {| vn_fields := []; vn_parent := None; vn_children := [] |}.

Lemma nth_set_nth {A} (d : A) n x l m :
  nth m (set_nth n x l) d = if Nat.eqb m n && Nat.ltb n (length l) then x else nth m l d.
Proof.
  revert n m. induction l as [|y l IH]; intros n m.
  - cbn [set_nth length]. destruct n; cbn; rewrite andb_false_r; reflexivity.
  - destruct n as [|n]; cbn [set_nth].
    + destruct m; cbn; reflexivity.
    + destruct m as [|m]; cbn [nth]; [reflexivity|]. rewrite IH. cbn [length]. reflexivity.
Qed.

Lemma length_set_nth {A} n (x : A) l : length (set_nth n x l) = length l.
Proof. revert n. induction l as [|y l IH]; intros n; destruct n; cbn; auto. Qed.

Lemma node_overflow h r : (length h <= r)%nat -> node h r = dnode.
Proof. intros H. unfold node. apply nth_overflow. exact H. Qed.

Lemma fields_set_parent h r p r' : vn_fields (node (set_parent h r p) r') = vn_fields (node h r').
Proof.
  unfold set_parent, node at 1. rewrite nth_set_nth. fold (node h r').
  destruct (Nat.eqb_spec r' r) as [->|_]; [|reflexivity]. destruct (Nat.ltb r (length h)); reflexivity.
Qed.

Lemma children_set_parent h r p r' : vn_children (node (set_parent h r p) r') = vn_children (node h r').
Proof.
  unfold set_parent, node at 1. rewrite nth_set_nth. fold (node h r').
  destruct (Nat.eqb_spec r' r) as [->|_]; [|reflexivity]. destruct (Nat.ltb r (length h)); reflexivity.
Qed.

Lemma parent_set_parent h r p r' :
  vn_parent (node (set_parent h r p) r') = if Nat.eqb r' r && Nat.ltb r (length h) then p else vn_parent (node h r').
Proof.
  unfold set_parent, node at 1. rewrite nth_set_nth. fold (node h r').
  destruct (Nat.eqb r' r && Nat.ltb r (length h)); reflexivity.
Qed.

Lemma fields_set_children h r c r' : vn_fields (node (set_children h r c) r') = vn_fields (node h r').
Proof.
  unfold set_children, node at 1. rewrite nth_set_nth. fold (node h r').
  destruct (Nat.eqb_spec r' r) as [->|_]; [|reflexivity]. destruct (Nat.ltb r (length h)); reflexivity.
Qed.

Lemma parent_set_children h r c r' : vn_parent (node (set_children h r c) r') = vn_parent (node h r').
Proof.
  unfold set_children, node at 1. rewrite nth_set_nth. fold (node h r').
  destruct (Nat.eqb_spec r' r) as [->|_]; [|reflexivity]. destruct (Nat.ltb r (length h)); reflexivity.
Qed.

Lemma children_set_children h r c r' :
  vn_children (node (set_children h r c) r') = if Nat.eqb r' r && Nat.ltb r (length h) then c else vn_children (node h r').
Proof.
  unfold set_children, node at 1. rewrite nth_set_nth. fold (node h r').
  destruct (Nat.eqb r' r && Nat.ltb r (length h)); reflexivity.
Qed.

(* ---- what an edge must satisfy; it depends on the (immutable) fields of the two objects only *)
Definition aligned (h : heap) (c v : nat) : Prop :=
  fld h v (F"uid") = PStr (fmt_s (fld h c (F"uid")) ++ c_dash :: fmt_s (fld h v (F"id"))).

Definition arch_sub (h : heap) (c v : nat) : Prop :=
  exists mine theirs, fld h v (F"arches") = PList mine /\ fld h c (F"arches") = PList theirs /\
                      forallb (fun a => py_in a theirs) mine = true.

Definition edge_ok (h : heap) (c v : nat) : Prop := aligned h c v /\ arch_sub h c v.

Lemma edge_ok_fields h h' c v :
  (forall r, vn_fields (node h' r) = vn_fields (node h r)) -> edge_ok h c v -> edge_ok h' c v.
Proof.
  intros Hf [Ha (mine & theirs & H1 & H2 & H3)]. unfold edge_ok, aligned, arch_sub, fld in *. rewrite !Hf. split; [exact Ha|].
  exists mine, theirs. auto.
Qed.

(* every child that points back to its (non-container) parent is aligned with it and within its architectures *)
Definition Inv (h : heap) : Prop :=
  forall c v key, c <> O -> In (key, v) (vn_children (node h c)) -> vn_parent (node h v) = Some c -> edge_ok h c v.

(* real Variant objects have no attribute named like the validators' context *)
Definition ctx_keys : list str := [F"_has_parent"; F"_parent_uid"; F"_parent_arches"; F"_children"].
Definition no_pseudo (h : heap) : Prop := forall r k, In k ctx_keys -> assoc k (vn_fields (node h r)) = None.

Lemma getf_ctx_plain o ctx f : assoc f ctx = None -> getf (o ++ ctx) f = getf o f.
Proof. intros H. unfold getf. rewrite assoc_app, H. destruct (assoc f o); reflexivity. Qed.

Lemma getf_ctx_pseudo o ctx f : assoc f o = None -> getf (o ++ ctx) f = getf ctx f.
Proof. intros H. unfold getf. rewrite assoc_app, H. reflexivity. Qed.

(* a variant accepted under a parent satisfies the edge conditions with respect to it *)
Lemma validated_edge h v c :
  no_pseudo h -> vn_parent (node h v) = Some c -> validate_variant h v = Ok tt -> edge_ok h c v.
Proof.
  intros Hnp Hp Hv. destruct (valid_variant_customs h v Hv) as (Hu & Ha & _).
  unfold variant_ctx in Hu, Ha. rewrite Hp in Hu, Ha.
  set (o := vn_fields (node h v)) in *.
  set (ctx := [(F"_has_parent", PBool true); (F"_parent_uid", fld h c (F"uid")); (F"_parent_arches", fld h c (F"arches"));
               (F"_children", children_ctx h v)]) in *.
  assert (P1 : getf (o ++ ctx) (F"_has_parent") = PBool true).
  { rewrite getf_ctx_pseudo; [reflexivity|]. apply Hnp. cbn. auto. }
  assert (P2 : getf (o ++ ctx) (F"_parent_uid") = fld h c (F"uid")).
  { rewrite getf_ctx_pseudo; [reflexivity|]. apply Hnp. cbn. auto. }
  assert (P3 : getf (o ++ ctx) (F"_parent_arches") = fld h c (F"arches")).
  { rewrite getf_ctx_pseudo; [reflexivity|]. apply Hnp. cbn. auto. }
  assert (Q1 : getf (o ++ ctx) (F"uid") = fld h v (F"uid")) by (apply getf_ctx_plain; reflexivity).
  assert (Q2 : getf (o ++ ctx) (F"id") = fld h v (F"id")) by (apply getf_ctx_plain; reflexivity).
  assert (Q3 : getf (o ++ ctx) (F"arches") = fld h v (F"arches")) by (apply getf_ctx_plain; reflexivity).
  split.
  - unfold custom_variant_uid in Hu. rewrite Q1, P1, P2, Q2 in Hu. unfold aligned.
    destruct (fld h v (F"uid")) as [| | | |self_uid| |]; try discriminate.
    apply guard_ok in Hu. apply str_eqb_eq in Hu. rewrite Hu. reflexivity.
  - unfold custom_parent_arch in Ha. rewrite P1, Q3, P3 in Ha. unfold arch_sub.
    destruct (fld h v (F"arches")) as [| | | | |mine|]; try discriminate.
    destruct (fld h c (F"arches")) as [| | | | |theirs|]; try discriminate.
    apply guard_ok in Ha. exists mine, theirs. auto.
Qed.

Lemma fields_variant_add h c v vid r :
  vn_fields (node (fst (variant_add h c v vid)) r) = vn_fields (node h r).
Proof.
  unfold variant_add.
  set (h1 := if Nat.eqb c 0 then h else set_parent h v (Some c)).
  assert (F1 : forall r, vn_fields (node h1 r) = vn_fields (node h r)).
  { intros r0. unfold h1. destruct (Nat.eqb c 0); [reflexivity|apply fields_set_parent]. }
  destruct (validate_variant h1 v) as [[]|e]; [|reflexivity].
  destruct (add_key h1 v vid) as [key|e]; [|reflexivity].
  destruct (existsb _ _); [reflexivity|].
  destruct (assoc key _) as [ex|].
  - destruct (Nat.eqb ex v); cbn [fst]; [apply F1|reflexivity].
  - cbn [fst]. rewrite fields_set_children. apply F1.
Qed.

Lemma no_pseudo_variant_add h c v vid : no_pseudo h -> no_pseudo (fst (variant_add h c v vid)).
Proof. intros H r k Hk. rewrite fields_variant_add. exact (H r k Hk). Qed.

Lemma In_assoc_app_tail key v (l : list (str * nat)) kv :
  In kv (l ++ [(key, v)]) -> In kv l \/ kv = (key, v).
Proof. intros H. apply in_app_or in H. destruct H as [H|[H|[]]]; auto. Qed.

Theorem variant_add_preserves_inv h c v vid :
  no_pseudo h -> Inv h -> Inv (fst (variant_add h c v vid)).
Proof.
  intros Hnp HI. pose proof (fields_variant_add h c v vid) as HF.
  unfold variant_add in *.
  set (h1 := if Nat.eqb c 0 then h else set_parent h v (Some c)) in *.
  assert (F1 : forall r, vn_fields (node h1 r) = vn_fields (node h r)).
  { intros r0. unfold h1. destruct (Nat.eqb c 0); [reflexivity|apply fields_set_parent]. }
  assert (C1 : forall r, vn_children (node h1 r) = vn_children (node h r)).
  { intros r0. unfold h1. destruct (Nat.eqb c 0); [reflexivity|apply children_set_parent]. }
  assert (NP1 : no_pseudo h1). { intros r k Hk. rewrite F1. exact (Hnp r k Hk). }
  (* the intermediate heap: only v's parent pointer differs *)
  assert (I1 : validate_variant h1 v = Ok tt -> Inv h1).
  { intros Hv c' v' key' Hc' Hin Hpar. rewrite C1 in Hin.
    unfold h1 in Hpar. destruct (Nat.eqb_spec c 0) as [->|Hc].
    - apply (edge_ok_fields h h1); [exact F1|]. exact (HI c' v' key' Hc' Hin Hpar).
    - rewrite parent_set_parent in Hpar.
      destruct (Nat.eqb_spec v' v) as [->|Hne]; cbn [andb] in Hpar.
      + destruct (Nat.ltb v (length h)) eqn:Hlt.
        * injection Hpar as <-. apply validated_edge; [exact NP1| |exact Hv].
          unfold h1. destruct (Nat.eqb_spec c 0) as [E|_]; [congruence|]. rewrite parent_set_parent, Nat.eqb_refl, Hlt. reflexivity.
        * apply (edge_ok_fields h h1); [exact F1|]. exact (HI c' v key' Hc' Hin Hpar).
      + apply (edge_ok_fields h h1); [exact F1|]. exact (HI c' v' key' Hc' Hin Hpar). }
  destruct (validate_variant h1 v) as [[]|e] eqn:Hv; [|exact HI].
  specialize (I1 eq_refl).
  destruct (add_key h1 v vid) as [key|e]; [|exact HI].
  destruct (existsb _ _); [exact HI|].
  destruct (assoc key (vn_children (node h1 c))) as [ex|] eqn:Eas.
  - destruct (Nat.eqb ex v); cbn [fst] in *; [exact I1|exact HI].
  - cbn [fst] in *. set (h2 := set_children h1 c (vn_children (node h1 c) ++ [(key, v)])) in *.
    intros c' v' key' Hc' Hin Hpar. unfold h2 in Hin, Hpar. rewrite parent_set_children in Hpar.
    rewrite children_set_children in Hin.
    apply (edge_ok_fields h1 h2); [intros r0; unfold h2; apply fields_set_children|].
    destruct (Nat.eqb_spec c' c) as [->|Hne]; cbn [andb] in Hin.
    + destruct (Nat.ltb c (length h1)) eqn:Hlt.
      * apply In_assoc_app_tail in Hin. destruct Hin as [Hin|Heq]; [exact (I1 c v' key' Hc' Hin Hpar)|].
        injection Heq as -> ->.
        (* the new entry: v's parent pointer was set to c before validation *)
        apply validated_edge; [exact NP1|exact Hpar|exact Hv].
      * exact (I1 c v' key' Hc' Hin Hpar).
    + exact (I1 c' v' key' Hc' Hin Hpar).
Qed.

(* ---- every heap reachable from a set of fresh objects by ANY sequence of add calls (accepted or refused) *)
Definition vop := (nat * nat * option str)%type.
Definition apply_vop (h : heap) (op : vop) : heap := let '(c, v, vid) := op in fst (variant_add h c v vid).

(* freshly created objects: no parent, no children *)
Definition fresh_heap (h : heap) : Prop := forall r, vn_parent (node h r) = None /\ vn_children (node h r) = [].

Lemma fresh_inv h : fresh_heap h -> Inv h.
Proof. intros Hf c v key _ Hin _. destruct (Hf c) as [_ Hc]. rewrite Hc in Hin. destruct Hin. Qed.

Theorem reach_inv h ops : fresh_heap h -> no_pseudo h -> Inv (fold_left apply_vop ops h) /\ no_pseudo (fold_left apply_vop ops h).
Proof.
  intros Hf Hnp. assert (G : forall h0, Inv h0 -> no_pseudo h0 -> Inv (fold_left apply_vop ops h0) /\ no_pseudo (fold_left apply_vop ops h0)).
  { induction ops as [|[[c v] vid] ops IH]; intros h0 HI HN; cbn [fold_left]; [split; assumption|].
    apply IH; cbn [apply_vop]; [apply variant_add_preserves_inv; assumption|apply no_pseudo_variant_add; assumption]. }
  apply G; [apply fresh_inv; exact Hf|exact Hnp].
Qed.

(* the invariant talks about something: two fresh objects, two accepted adds, one real edge *)
Definition ex_var (id uid ty : str) (arches : list str) : vnode :=
  {| vn_fields := [(F"id", PStr id); (F"uid", PStr uid); (F"name", PStr id); (F"type", PStr ty); (F"arches", PList (map PStr arches))];
     vn_parent := None; vn_children := [] |}.
Definition ex_heap : heap :=
  [dnode; ex_var (F"Server") (F"Server") (F"variant") [F"x86_64"; F"ppc64le"];
          ex_var (F"optional") (F"Server-optional") (F"optional") [F"x86_64"]].
Definition ex_ops : list vop := [(0, 1, None); (1, 2, None)]%nat.

Example reach_inv_nonvacuous :
  fresh_heap ex_heap /\ no_pseudo ex_heap /\
  let h := fold_left apply_vop ex_ops ex_heap in
  In (F"optional", 2%nat) (vn_children (node h 1)) /\ vn_parent (node h 2) = Some 1%nat.
Proof.
  split; [|split].
  - intros r. do 3 (destruct r as [|r]; [split; reflexivity|]). unfold node. cbn [nth ex_heap]. destruct r; split; reflexivity.
  - intros r k Hk. do 3 (destruct r as [|r]; [cbn in Hk; repeat (destruct Hk as [<-|Hk]; [vm_compute; reflexivity|]); destruct Hk|]).
    unfold node. cbn [nth ex_heap]. destruct r; reflexivity.
  - vm_compute. split; [left; reflexivity|reflexivity].
Qed.

(* ---- get_variants returns its result ordered by UID *)
From Coq Require Import Sorting.Sorted Permutation.
From PM Require Import Proofs.StrOrder.

Definition uid_le (h : heap) (x y : nat) : Prop := str_ltb (uid_str h y) (uid_str h x) = false.

Lemma in_insert_by_uid_iff h r l x : In x (insert_by_uid h r l) <-> x = r \/ In x l.
Proof. apply in_insert_by_uid. Qed.

Lemma insert_by_uid_sorted h r l : StronglySorted (uid_le h) l -> StronglySorted (uid_le h) (insert_by_uid h r l).
Proof.
  induction l as [|x l IH]; intros H; cbn [insert_by_uid]; [repeat constructor|].
  inversion H as [|? ? Hs Hall]; subst.
  destruct (str_ltb (uid_str h r) (uid_str h x)) eqn:E.
  - constructor; [exact H|]. constructor; [exact (str_ltb_asym _ _ E)|].
    apply Forall_forall. intros y Hy. rewrite Forall_forall in Hall. specialize (Hall y Hy). unfold uid_le in *.
    destruct (str_ltb (uid_str h y) (uid_str h r)) eqn:E2; [|reflexivity].
    pose proof (str_ltb_trans _ _ _ E2 E). congruence.
  - constructor; [exact (IH Hs)|]. apply Forall_forall. intros y Hy. apply in_insert_by_uid_iff in Hy.
    destruct Hy as [->|Hy]; [exact E|]. rewrite Forall_forall in Hall. exact (Hall y Hy).
Qed.

Lemma sort_by_uid_sorted h l : StronglySorted (uid_le h) (sort_by_uid h l).
Proof.
  unfold sort_by_uid. assert (H : forall acc, StronglySorted (uid_le h) acc ->
                                  StronglySorted (uid_le h) (fold_left (fun acc r => insert_by_uid h r acc) l acc)).
  { induction l as [|r l IH]; intros acc Ha; [exact Ha|]. cbn [fold_left]. apply IH. apply insert_by_uid_sorted. exact Ha. }
  apply H. constructor.
Qed.

Theorem get_variants_sorted fuel h c arch types recursive :
  StronglySorted (uid_le h) (get_variants fuel h c arch types recursive).
Proof. destruct fuel as [|f]; cbn [get_variants]; [constructor|apply sort_by_uid_sorted]. Qed.
