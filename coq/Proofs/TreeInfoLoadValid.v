(* C07: what a successful treeinfo load returns has passed every validator the writer runs, at every depth of the variant tree *)
From PM Require Import Base.PyVal Base.Obj Base.Ini Model.Common Model.Variants Model.ComposeInfo Model.TreeInfo
     Proofs.ManifestsProofs Proofs.LoadValid Proofs.ImagesManifest Proofs.ArchProofs.

Fixpoint tv_valid (parent_uid : option pyval) (t : tvar) : Prop :=
  match t with
  | TV f paths children =>
      (fix all (cs : list (str * tvar)) : Prop :=
         match cs with
         | [] => True
         | (_, c) :: cs' => (tvalidate (F"treeinfo.Variant") (tv_ctx (Some (getf f (F"uid"))) c) = Ok tt /\
                             tv_valid (Some (getf f (F"uid"))) c) /\ all cs'
         end) children
  end.

Definition tv_children_valid (pu : pyval) (cs : list (str * tvar)) : Prop :=
  forall k c, In (k, c) cs -> tvalidate (F"treeinfo.Variant") (tv_ctx (Some pu) c) = Ok tt /\ tv_valid (Some pu) c.

Lemma tv_valid_unfold parent f paths children :
  tv_valid parent (TV f paths children) <-> tv_children_valid (getf f (F"uid")) children.
Proof.
  cbn [tv_valid]. unfold tv_children_valid. induction children as [|[k c] cs IH].
  - split; [intros _ k c []|intros _; exact I].
  - split.
    + intros [Hc Hrest] k' c' [E|Hin]; [injection E as <- <-; exact Hc|exact (proj1 IH Hrest k' c' Hin)].
    + intros H. split; [apply (H k c); left; reflexivity|]. apply IH. intros k' c' Hin. apply (H k' c'). right. exact Hin.
Qed.

Lemma deser_tvar_valid fuel : forall src03 t parent uid addon v,
  deser_tvar fuel src03 t parent uid addon = Ok v -> tv_valid parent v.
Proof.
  induction fuel as [|fuel IH]; intros src03 t parent uid addon v H; cbn [deser_tvar] in H; [discriminate|].
  apply bind_ok in H. destruct H as (u0 & _ & H).
  apply bind_ok in H. destruct H as (id & _ & H). apply bind_ok in H. destruct H as (uid' & _ & H).
  apply bind_ok in H. destruct H as (name & _ & H). apply bind_ok in H. destruct H as (ty & _ & H).
  apply bind_ok in H. destruct H as (children & Hch & H).
  apply bind_ok in H. destruct H as (u1 & _ & H). injection H as <-.
  apply tv_valid_unfold. change (tv_children_valid (PStr uid') children).
  destruct (has_option t _ (F"addons")); [|injection Hch as <-; intros ? ? []].
  apply bind_ok in Hch. destruct Hch as (al & _ & Hch). revert Hch.
  apply (fold_res_inv (tv_children_valid (PStr uid'))); [|intros s E; injection E as <-; intros ? ? []].
  intros acc cu cs' Hacc Hs. destruct acc as [cs|e]; cbn [bind] in Hs; [|discriminate].
  apply bind_ok in Hs. destruct Hs as (c & Hc & Hs). apply bind_ok in Hs. destruct Hs as (u2 & Hvc & Hs).
  apply bind_ok in Hs. destruct Hs as (ckey & _ & Hs).
  destruct (assoc ckey cs); [discriminate|]. injection Hs as <-.
  intros k c' Hin. apply in_app_or in Hin. destruct Hin as [Hin|[E|[]]]; [exact (Hacc cs eq_refl k c' Hin)|].
  injection E as <- <-. split; [exact (unit_ok _ _ Hvc)|exact (IH _ _ _ _ _ _ Hc)].
Qed.

Definition ti_variants_valid (vs : list (str * tvar)) : Prop :=
  forall k v, In (k, v) vs -> tvalidate (F"treeinfo.Variant") (tv_ctx None v) = Ok tt /\ tv_valid None v.

(* everything load returns has passed the validators the writer runs: release, base product (when layered), tree, every variant
   in the context of its parent, the variants container, checksum paths, image paths and platforms, stage2, media *)
Theorem load_ti_valid t x :
  deser_ti t = Ok x ->
  tvalidate (F"treeinfo.Release") (ti_release x) = Ok tt /\
  (truthy (getf (ti_release x) (F"is_layered")) = true -> tvalidate (F"treeinfo.BaseProduct") (ti_base_product x) = Ok tt) /\
  tvalidate (F"treeinfo.Tree") (ti_tree x) = Ok tt /\
  ti_variants_valid (ti_variants x) /\
  tvalidate (F"treeinfo.Variants") [(F"_children", PList (map (tv_child_entry true) (sort_keys (ti_variants x))))] = Ok tt /\
  tvalidate (F"treeinfo.Checksums") [(F"_checksum_paths", PList (map (fun c => PStr (fst c)) (ti_checksums x)))] = Ok tt /\
  tvalidate (F"treeinfo.Images") (images_ctx x) = Ok tt /\
  tvalidate (F"treeinfo.Stage2") (ti_stage2 x) = Ok tt /\
  tvalidate (F"treeinfo.Media") (ti_media x) = Ok tt.
Proof.
  unfold deser_ti. intros H.
  apply bind_ok in H. destruct H as (vt & _ & H). apply bind_ok in H. destruct H as (u0 & _ & H).
  apply bind_ok in H. destruct H as (rname & _ & H). apply bind_ok in H. destruct H as (rver & _ & H).
  apply bind_ok in H. destruct H as (rshort & _ & H). apply bind_ok in H. destruct H as (lay & _ & H).
  cbv zeta in H.
  apply bind_ok in H. destruct H as (u1 & Hrel & H).
  apply bind_ok in H. destruct H as (bp & Hbp & H).
  apply bind_ok in H. destruct H as (arch & _ & H). apply bind_ok in H. destruct H as (plats & _ & H).
  apply bind_ok in H. destruct H as (ts & _ & H).
  apply bind_ok in H. destruct H as (u2 & Htree & H).
  apply bind_ok in H. destruct H as (vids & _ & H).
  apply bind_ok in H. destruct H as (variants & Hvs & H).
  apply bind_ok in H. destruct H as (u3 & Hcont & H).
  apply bind_ok in H. destruct H as (checksums & _ & H).
  apply bind_ok in H. destruct H as (u4 & Hck & H).
  apply bind_ok in H. destruct H as (u5 & Himg & H).
  apply bind_ok in H. destruct H as (u6 & Hs2 & H).
  apply bind_ok in H. destruct H as (md & _ & H).
  apply bind_ok in H. destruct H as (u7 & Hmd & H).
  apply bind_ok in H. destruct H as (u8 & _ & H). injection H as <-.
  cbn [ti_release ti_base_product ti_tree ti_variants ti_checksums ti_stage2 ti_media].
  split; [exact (unit_ok _ _ Hrel)|]. split.
  { intros Hl. destruct lay; [|cbn in Hl; discriminate].
    apply bind_ok in Hbp. destruct Hbp as (n & _ & Hbp). apply bind_ok in Hbp. destruct Hbp as (v & _ & Hbp).
    apply bind_ok in Hbp. destruct Hbp as (s & _ & Hbp). cbv zeta in Hbp. apply bind_ok in Hbp. destruct Hbp as (u9 & Hb & Hbp).
    injection Hbp as <-. exact (unit_ok _ _ Hb). }
  split; [exact (unit_ok _ _ Htree)|]. split.
  { revert Hvs. apply (fold_res_inv ti_variants_valid); [|intros s E; injection E as <-; intros ? ? []].
    intros acc vid vs' Hacc Hs. destruct acc as [vs0|e]; cbn [bind] in Hs; [|discriminate].
    apply bind_ok in Hs. destruct Hs as (v & Hv & Hs). apply bind_ok in Hs. destruct Hs as (u9 & Hvv & Hs). cbv zeta in Hs.
    destruct (assoc _ vs0); [discriminate|]. injection Hs as <-.
    intros k v' Hin. apply in_app_or in Hin. destruct Hin as [Hin|[E|[]]]; [exact (Hacc vs0 eq_refl k v' Hin)|].
    injection E as <- <-. split; [exact (unit_ok _ _ Hvv)|exact (deser_tvar_valid _ _ _ _ _ _ _ Hv)]. }
  split; [exact (unit_ok _ _ Hcont)|]. split; [exact (unit_ok _ _ Hck)|]. split; [exact (unit_ok _ _ Himg)|].
  split; [exact (unit_ok _ _ Hs2)|exact (unit_ok _ _ Hmd)].
Qed.
