From PM Require Import Base.RegexCost.
Open Scope nat_scope.

(* ---------- suffixes *)
Definition suffix (x s : str) : Prop := exists u, s = u ++ x.

Lemma suffix_refl s : suffix s s.
Proof. exists []. reflexivity. Qed.

Lemma suffix_trans x y z : suffix x y -> suffix y z -> suffix x z.
Proof. intros [u ->] [v ->]. exists (v ++ u). rewrite app_assoc. reflexivity. Qed.

Lemma suffix_len x s : suffix x s -> length x <= length s.
Proof. intros [u ->]. rewrite app_length. lia. Qed.

Lemma suffix_len_eq x y s : suffix x s -> suffix y s -> length x = length y -> x = y.
Proof.
  intros [u Hu] [v Hv] Hl. rewrite Hu in Hv. clear Hu.
  assert (length u = length v).
  { apply (f_equal (@length chr)) in Hv. rewrite !app_length in Hv. lia. }
  revert v Hv H. induction u as [|a u IH]; intros [|b v] Hv H; cbn in *; try lia; [exact Hv|].
  injection Hv as _ Hv. apply (IH v Hv). lia.
Qed.

Lemma suffix_cons x a s : suffix x s -> suffix x (a :: s).
Proof. intros [u ->]. exists (a :: u). reflexivity. Qed.

Lemma NoDup_suffix_len l s : NoDup l -> (forall x, In x l -> suffix x s) -> length l <= length s + 1.
Proof.
  intros Hnd Hs.
  assert (Hm : NoDup (map (@length chr) l)).
  { clear -Hnd Hs. induction Hnd as [|x l Hx Hnd IH]; cbn; constructor.
    - intros Hin. apply in_map_iff in Hin. destruct Hin as (y & Hl & Hy).
      assert (x = y). { apply (suffix_len_eq x y s); [apply Hs; left; reflexivity|apply Hs; right; exact Hy|lia]. }
      subst. contradiction.
    - apply IH. intros y Hy. apply Hs. right. exact Hy. }
  assert (Hi : incl (map (@length chr) l) (seq 0 (length s + 1))).
  { intros n Hn. apply in_map_iff in Hn. destruct Hn as (y & <- & Hy). apply in_seq.
    pose proof (suffix_len y s (Hs y Hy)). lia. }
  pose proof (NoDup_incl_length Hm Hi) as H. rewrite map_length, seq_length in H. exact H.
Qed.

Lemma NoDup_app_intro {A} (a b : list A) :
  NoDup a -> NoDup b -> (forall x, In x a -> ~ In x b) -> NoDup (a ++ b).
Proof.
  intros Ha Hb Hd. induction Ha as [|x a Hx Ha IH]; cbn; [exact Hb|].
  constructor.
  - intros Hin. apply in_app_or in Hin. destruct Hin as [H|H]; [contradiction|]. exact (Hd x (or_introl eq_refl) H).
  - apply IH. intros y Hy. apply Hd. right. exact Hy.
Qed.

(* ---------- what exits consume *)
Fixpoint cls_all (Q : cset -> Prop) (r : re) : Prop :=
  match r with
  | Cls c => Q c
  | Cat a b | Alt a b => cls_all Q a /\ cls_all Q b
  | Star a | Grp _ a => cls_all Q a
  | _ => True
  end.

Section Consumed.
  Variable Q : cset -> Prop.
  Variable P : chr -> Prop.
  Hypothesis HQ : forall c, Q c -> forall y, cs_mem y c = true -> P y.

  Definition consumes (f : str -> list str) : Prop :=
    forall s x, In x (f s) -> exists u, s = u ++ x /\ Forall P u.

  Lemma star_exits_consumed f : consumes f -> forall n, consumes (star_exits f n).
  Proof.
    intros Hf n. induction n as [|n IH]; intros s x Hin; cbn [star_exits] in Hin.
    - destruct Hin as [<-|[]]. exists []. split; [reflexivity|constructor].
    - apply in_app_or in Hin. destruct Hin as [Hin|[<-|[]]].
      + apply in_flat_map in Hin. destruct Hin as (s' & Hs' & Hx).
        destruct (Nat.ltb (length s') (length s)); [|destruct Hx].
        apply Hf in Hs'. destruct Hs' as (u1 & -> & Hu1). apply IH in Hx. destruct Hx as (u2 & -> & Hu2).
        exists (u1 ++ u2). rewrite app_assoc. split; [reflexivity|apply Forall_app; split; assumption].
      + exists []. split; [reflexivity|constructor].
  Qed.

  Lemma exits_consumed r : cls_all Q r -> consumes (exits r).
  Proof.
    induction r as [|cs|a IHa b IHb|a IHa b IHb|a IHa| | |n a IHa|]; cbn [cls_all]; intros Hc s x Hin; cbn [exits] in Hin.
    - destruct Hin as [<-|[]]. exists []. split; [reflexivity|constructor].
    - destruct s as [|y s']; [destruct Hin|]. destruct (cs_mem y cs) eqn:E; [|destruct Hin].
      destruct Hin as [<-|[]]. exists [y]. split; [reflexivity|]. constructor; [exact (HQ cs Hc y E)|constructor].
    - destruct Hc as [Ha Hb]. apply in_flat_map in Hin. destruct Hin as (s' & Hs' & Hx).
      apply (IHa Ha) in Hs'. destruct Hs' as (u1 & -> & Hu1). apply (IHb Hb) in Hx. destruct Hx as (u2 & -> & Hu2).
      exists (u1 ++ u2). rewrite app_assoc. split; [reflexivity|apply Forall_app; split; assumption].
    - destruct Hc as [Ha Hb]. apply in_app_or in Hin. destruct Hin as [H|H]; [exact (IHa Ha s x H)|exact (IHb Hb s x H)].
    - exact (star_exits_consumed (exits a) (IHa Hc) _ s x Hin).
    - destruct Hin as [<-|[]]. exists []. split; [reflexivity|constructor].
    - destruct s as [|y [|z s']].
      + destruct Hin as [<-|[]]. exists []. split; [reflexivity|constructor].
      + destruct (N.eqb y 10); [|destruct Hin]. destruct Hin as [<-|[]]. exists []. split; [reflexivity|constructor].
      + destruct Hin.
    - exact (IHa Hc s x Hin).
    - destruct Hin.
  Qed.
End Consumed.

Lemma cls_all_true r : cls_all (fun _ => True) r.
Proof. induction r; cbn; auto. Qed.

Lemma exits_suffix r s x : In x (exits r s) -> suffix x s.
Proof.
  intros H. destruct (exits_consumed (fun _ => True) (fun _ => True) (fun _ _ _ _ => I) r (cls_all_true r) s x H) as (u & -> & _).
  exists u. reflexivity.
Qed.

Lemma star_exits_suffix f n s x : (forall s x, In x (f s) -> suffix x s) -> In x (star_exits f n s) -> suffix x s.
Proof.
  intros Hf H.
  assert (Hc : consumes (fun _ => True) f).
  { intros s0 x0 H0. destruct (Hf s0 x0 H0) as [u ->]. exists u. split; [reflexivity|]. apply Forall_forall. auto. }
  destruct (star_exits_consumed (fun _ => True) f Hc n s x H) as (u & -> & _). exists u. reflexivity.
Qed.

(* ---------- disjoint classes *)
Lemma ranges_disjoint_spec r1 r2 y : ranges_disjoint r1 r2 = true -> in_ranges y r1 = true -> in_ranges y r2 = false.
Proof.
  unfold ranges_disjoint, in_ranges. intros Hd H1.
  apply existsb_exists in H1. destruct H1 as (a & Ha & Hya).
  destruct (existsb _ r2) eqn:E; [|reflexivity]. exfalso.
  apply existsb_exists in E. destruct E as (b & Hb & Hyb).
  rewrite forallb_forall in Hd. specialize (Hd a Ha). rewrite forallb_forall in Hd. specialize (Hd b Hb).
  lia.
Qed.

Lemma cs_disjoint_spec c d y : cs_disjoint c d = true -> cs_mem y c = true -> cs_mem y d = false.
Proof.
  destruct c as [[|] r1], d as [[|] r2]; cbn [cs_disjoint]; try discriminate.
  intros Hd H1. cbn [cs_mem] in *. destruct (in_ranges y r1) eqn:E1; [|discriminate].
  rewrite (ranges_disjoint_spec r1 r2 y Hd E1). reflexivity.
Qed.

Lemma dfree_cls_all d r : dfree d r = true -> cls_all (fun c => cs_disjoint c d = true) r.
Proof.
  induction r as [|cs|a IHa b IHb|a IHa b IHb|a IHa| | |n a IHa|]; cbn [dfree cls_all]; intros H; auto.
  - apply andb_true_iff in H. destruct H; split; auto.
  - apply andb_true_iff in H. destruct H; split; auto.
Qed.

Lemma dfree_consumed d r s x :
  dfree d r = true -> In x (exits r s) -> exists u, s = u ++ x /\ Forall (fun y => cs_mem y d = false) u.
Proof.
  intros Hd. apply (exits_consumed (fun c => cs_disjoint c d = true) (fun y => cs_mem y d = false)).
  - intros c Hc y Hy. exact (cs_disjoint_spec c d y Hc Hy).
  - apply dfree_cls_all. exact Hd.
Qed.

(* ---------- fuel independence *)
Lemma star_exits_fuel f : forall n m s, length s < n -> length s < m -> star_exits f n s = star_exits f m s.
Proof.
  induction n as [|n IH]; intros m s Hn Hm; [lia|]. destruct m as [|m]; [lia|]. cbn [star_exits]. f_equal.
  apply flat_map_ext. intros s'. destruct (Nat.ltb_spec (length s') (length s)); [|reflexivity].
  apply IH; lia.
Qed.

(* ---------- unambiguity of simple expressions *)
Lemma star_cls_nodup c : forall n s, NoDup (star_exits (exits (Cls c)) n s).
Proof.
  induction n as [|n IH]; intros s; cbn [star_exits].
  - constructor; [intros []|constructor].
  - cbn [exits]. destruct s as [|y s']; [cbn; constructor; [intros []|constructor]|].
    destruct (cs_mem y c); [|cbn; constructor; [intros []|constructor]].
    cbn [flat_map]. rewrite app_nil_r. cbn [length].
    replace (Nat.ltb (length s') (S (length s'))) with true by (symmetry; apply Nat.ltb_lt; lia).
    apply NoDup_app_intro; [apply IH|constructor; [intros []|constructor]|].
    intros x Hx [<-|[]].
    apply (star_exits_suffix (exits (Cls c)) n s' _ (exits_suffix (Cls c))) in Hx.
    apply suffix_len in Hx. cbn in Hx. lia.
Qed.

Lemma simple_nodup r : simple r = true -> forall s, NoDup (exits r s).
Proof.
  induction r as [|cs|a IHa b IHb|a IHa b IHb|a IHa| | |n a IHa|]; cbn [simple]; intros H s; try discriminate.
  - cbn [exits]. destruct s as [|y s']; [constructor|]. destruct (cs_mem y cs); [constructor; [intros []|constructor]|constructor].
  - destruct a; try discriminate. cbn [exits]. destruct s as [|y s']; [constructor|].
    destruct (cs_mem y c); [|constructor]. cbn [flat_map]. rewrite app_nil_r. apply IHb. exact H.
  - destruct a; try discriminate. cbn [exits]. apply star_cls_nodup.
Qed.

(* ---------- stars whose body starts with a delimiter class *)
Lemma star_delim_nodup d b :
  dfree d b = true -> (forall s, NoDup (exits b s)) ->
  forall n s, length s < n -> NoDup (star_exits (exits (Cat (Cls d) b)) n s).
Proof.
  intros Hd Hb n. induction n as [|n IH]; intros s Hn; [lia|]. cbn [star_exits].
  set (SE := fun s' => if Nat.ltb (length s') (length s) then star_exits (exits (Cat (Cls d) b)) n s' else []).
  assert (Hsuf : forall s0 x, In x (exits (Cat (Cls d) b) s0) -> suffix x s0) by (intros; eapply exits_suffix; eassumption).
  assert (HSE_suf : forall s' x, In x (SE s') -> suffix x s').
  { intros s' x Hx. unfold SE in Hx. destruct (Nat.ltb (length s') (length s)); [|destruct Hx].
    exact (star_exits_suffix _ n s' x Hsuf Hx). }
  apply NoDup_app_intro; [|constructor; [intros []|constructor]|].
  - (* the iterations *)
    cbn [exits]. destruct s as [|y t]; [constructor|]. destruct (cs_mem y d) eqn:Ey; [|constructor].
    cbn [flat_map]. rewrite app_nil_r.
    assert (HL : NoDup (exits b t)) by apply Hb.
    assert (HLs : forall x, In x (exits b t) -> exists u, t = u ++ x /\ Forall (fun z => cs_mem z d = false) u)
      by (intros x Hx; exact (dfree_consumed d b t x Hd Hx)).
    revert HL HLs. generalize (exits b t) as L. intros L HL HLs.
    induction HL as [|x L Hx HL IHL]; cbn [flat_map]; [constructor|].
    apply NoDup_app_intro.
    + unfold SE. destruct (Nat.ltb_spec (length x) (length (y :: t))); [|constructor]. apply IH. cbn [length] in *. lia.
    + apply IHL. intros z Hz. apply HLs. right. exact Hz.
    + (* disjointness between the sub-trees of two distinct exits of b *)
      intros e He1 He2. apply in_flat_map in He2. destruct He2 as (x2 & Hx2 & He2).
      destruct (HLs x (or_introl eq_refl)) as (u1 & Ht1 & Hu1).
      destruct (HLs x2 (or_intror Hx2)) as (u2 & Ht2 & Hu2).
      assert (Hne : x <> x2) by (intros ->; contradiction).
      (* compare lengths *)
      destruct (Nat.lt_trichotomy (length x) (length x2)) as [Hlt|[Heq|Hgt]].
      * (* x2 longer: x2 = w ++ x with w non-empty and d-free, so SE x2 = [x2] and e = x2 is not a suffix of x *)
        assert (Hx2w : exists w, u1 = u2 ++ w /\ x2 = w ++ x /\ w <> []).
        { rewrite Ht1 in Ht2. clear -Ht2 Hlt. revert u2 Ht2. induction u1 as [|a u1 IHu]; intros u2 Ht2.
          - destruct u2; cbn in Ht2; [subst; lia|]. apply (f_equal (@length chr)) in Ht2. cbn in Ht2. rewrite app_length in Ht2. lia.
          - destruct u2 as [|a2 u2].
            + cbn in Ht2. exists (a :: u1). repeat split; [symmetry; exact Ht2|discriminate].
            + cbn in Ht2. injection Ht2 as -> Ht2. destruct (IHu u2 Ht2) as (w & -> & -> & Hw). exists w. auto. }
        destruct Hx2w as (w & -> & -> & Hw). destruct w as [|w0 w]; [congruence|].
        apply Forall_app in Hu1. destruct Hu1 as [_ Hw0]. pose proof (Forall_inv Hw0) as Hw0d; cbv beta in Hw0d.
        unfold SE in He2. destruct (Nat.ltb (length ((w0 :: w) ++ x)) (length (y :: t))); [|destruct He2].
        destruct n as [|n']; [cbn in He2|cbn [star_exits exits app] in He2; rewrite Hw0d in He2; cbn in He2].
        -- destruct He2 as [<-|[]]. apply HSE_suf in He1. apply suffix_len in He1. cbn [app length] in *. rewrite ?app_length in *. lia.
        -- destruct He2 as [<-|[]]. apply HSE_suf in He1. apply suffix_len in He1. cbn [app length] in *. rewrite ?app_length in *. lia.
      * exfalso. apply Hne. apply (suffix_len_eq x x2 t); [exists u1; exact Ht1|exists u2; exact Ht2|exact Heq].
      * (* x longer: symmetric *)
        assert (Hxw : exists w, u2 = u1 ++ w /\ x = w ++ x2 /\ w <> []).
        { rewrite Ht2 in Ht1. clear -Ht1 Hgt. revert u1 Ht1. induction u2 as [|a u2 IHu]; intros u1 Ht1.
          - destruct u1; cbn in Ht1; [subst; lia|]. apply (f_equal (@length chr)) in Ht1. cbn in Ht1. rewrite app_length in Ht1. lia.
          - destruct u1 as [|a1 u1].
            + cbn in Ht1. exists (a :: u2). repeat split; [symmetry; exact Ht1|discriminate].
            + cbn in Ht1. injection Ht1 as -> Ht1. destruct (IHu u1 Ht1) as (w & -> & -> & Hw). exists w. auto. }
        destruct Hxw as (w & -> & -> & Hw). destruct w as [|w0 w]; [congruence|].
        apply Forall_app in Hu2. destruct Hu2 as [_ Hw0]. pose proof (Forall_inv Hw0) as Hw0d; cbv beta in Hw0d.
        unfold SE in He1. destruct (Nat.ltb (length ((w0 :: w) ++ x2)) (length (y :: t))); [|destruct He1].
        destruct n as [|n']; [cbn in He1|cbn [star_exits exits app] in He1; rewrite Hw0d in He1; cbn in He1].
        -- destruct He1 as [<-|[]]. apply HSE_suf in He2. apply suffix_len in He2. cbn [app length] in *. rewrite ?app_length in *. lia.
        -- destruct He1 as [<-|[]]. apply HSE_suf in He2. apply suffix_len in He2. cbn [app length] in *. rewrite ?app_length in *. lia.
  - (* s itself is not among the deeper exits *)
    intros x Hx [<-|[]]. apply in_flat_map in Hx. destruct Hx as (s' & Hs' & Hx).
    unfold SE in Hx. destruct (Nat.ltb_spec (length s') (length s)); [|destruct Hx].
    apply (star_exits_suffix _ n s' s Hsuf) in Hx. apply suffix_len in Hx. lia.
Qed.

(* ---------- groups are transparent *)
Lemma star_exits_ext f g : (forall s, f s = g s) -> forall n s, star_exits f n s = star_exits g n s.
Proof.
  intros H n. induction n as [|n IH]; intros s; cbn [star_exits]; [reflexivity|].
  rewrite H. f_equal. apply flat_map_ext. intros s'. destruct (Nat.ltb _ _); [apply IH|reflexivity].
Qed.

Lemma exits_ungroup r : forall s, exits (ungroup r) s = exits r s.
Proof.
  induction r as [|cs|a IHa b IHb|a IHa b IHb|a IHa| | |n a IHa|]; intros s; cbn [ungroup exits]; try reflexivity.
  - rewrite IHa. apply flat_map_ext. exact IHb.
  - rewrite IHa, IHb. reflexivity.
  - apply star_exits_ext. exact IHa.
  - apply IHa.
Qed.

Lemma star_ok_nodup a : star_ok a = true -> forall s, NoDup (exits (Star a) s).
Proof.
  unfold star_ok. intros H s. cbn [exits].
  rewrite <- (star_exits_ext _ _ (exits_ungroup a)).
  destruct (ungroup a) as [|cs|x b|x b|x| | |n x|]; try discriminate.
  - apply star_cls_nodup.
  - destruct x; try discriminate. apply andb_true_iff in H. destruct H as [Hd Hs].
    apply star_delim_nodup; [exact Hd|apply simple_nodup; exact Hs|lia].
Qed.

(* ---------- arithmetic of the bound polynomials *)
Lemma evalP_mono p n m : n <= m -> evalP p n <= evalP p m.
Proof. intros H. unfold evalP. apply Nat.mul_le_mono_l. apply Nat.pow_le_mono_l. lia. Qed.

Lemma evalP_add p q n : evalP p n + evalP q n <= evalP (addP p q) n.
Proof.
  unfold evalP, addP. cbn [fst snd].
  assert (H1 : (n + 1) ^ snd p <= (n + 1) ^ Nat.max (snd p) (snd q)) by (apply Nat.pow_le_mono_r; lia).
  assert (H2 : (n + 1) ^ snd q <= (n + 1) ^ Nat.max (snd p) (snd q)) by (apply Nat.pow_le_mono_r; lia).
  rewrite Nat.mul_add_distr_r. apply Nat.add_le_mono; apply Nat.mul_le_mono_l; assumption.
Qed.

Lemma evalP_mul p q n : evalP p n * evalP q n = evalP (mulP p q) n.
Proof. unfold evalP, mulP. cbn [fst snd]. rewrite Nat.pow_add_r. lia. Qed.

Lemma evalP_one n : evalP oneP n = 1.
Proof. unfold evalP, oneP. cbn. lia. Qed.

Lemma sum_map_le {A} (f : A -> nat) l B : (forall x, In x l -> f x <= B) -> sum_map f l <= length l * B.
Proof.
  unfold sum_map. induction l as [|x l IH]; intros H; cbn [fold_right length]; [lia|].
  pose proof (H x (or_introl eq_refl)). specialize (IH (fun y Hy => H y (or_intror Hy))). cbn [Nat.mul]. lia.
Qed.

Lemma flat_map_length {A B} (f : A -> list B) l : length (flat_map f l) = sum_map (fun x => length (f x)) l.
Proof. unfold sum_map. induction l as [|x l IH]; cbn [flat_map fold_right]; [reflexivity|]. rewrite app_length, IH. reflexivity. Qed.

(* ---------- number of exits *)
Theorem exits_bound r : safe r = true -> forall s, length (exits r s) <= evalP (EP r) (length s).
Proof.
  induction r as [|cs|a IHa b IHb|a IHa b IHb|a IHa| | |n a IHa|]; cbn [safe]; intros H s; try discriminate.
  - cbn. lia.
  - cbn [exits EP]. rewrite evalP_one. destruct s as [|y s']; [cbn; lia|]. destruct (cs_mem y cs); cbn; lia.
  - apply andb_true_iff in H. destruct H as [Ha Hb]. cbn [exits EP]. rewrite flat_map_length.
    rewrite <- evalP_mul.
    etransitivity; [apply (sum_map_le _ _ (evalP (EP b) (length s)))|].
    + intros x Hx. etransitivity; [apply (IHb Hb)|]. apply evalP_mono. apply suffix_len. eapply exits_suffix. exact Hx.
    + apply Nat.mul_le_mono_r. apply (IHa Ha).
  - apply andb_true_iff in H. destruct H as [Ha Hb]. cbn [exits EP]. rewrite app_length.
    etransitivity; [|apply evalP_add]. apply Nat.add_le_mono; [apply (IHa Ha)|apply (IHb Hb)].
  - cbn [EP]. unfold evalP. cbn [fst snd]. rewrite Nat.pow_1_r, Nat.mul_1_l.
    apply NoDup_suffix_len; [apply star_ok_nodup; exact H|]. intros x Hx. eapply exits_suffix. exact Hx.
  - cbn. lia.
  - cbn [exits EP]. rewrite evalP_one. destruct s as [|y [|z s']]; cbn; try lia. destruct (N.eqb y 10); cbn; lia.
  - cbn [exits EP]. apply IHa. exact H.
Qed.

(* ---------- work *)
Lemma sum_map_app {A} (g : A -> nat) l1 l2 : sum_map g (l1 ++ l2) = sum_map g l1 + sum_map g l2.
Proof. unfold sum_map. induction l1 as [|x l1 IHl]; cbn [app fold_right]; [reflexivity|]. rewrite IHl. lia. Qed.

Lemma sum_map_cons {A} (g : A -> nat) x l : sum_map g (x :: l) = g x + sum_map g l.
Proof. reflexivity. Qed.

Lemma sum_map_nil {A} (g : A -> nat) : sum_map g [] = 0.
Proof. reflexivity. Qed.

Lemma star_work_le w f : forall n s,
  star_work w f n s <= sum_map (fun x => 1 + w x) (star_exits f n s).
Proof.
  induction n as [|n IH]; intros s; cbn [star_work star_exits].
  - rewrite sum_map_cons, sum_map_nil. lia.
  - rewrite sum_map_app, sum_map_cons, sum_map_nil.
    assert (Hfm : forall l, sum_map (fun s' => if Nat.ltb (length s') (length s) then star_work w f n s' else 0) l <=
                            sum_map (fun x => 1 + w x)
                                    (flat_map (fun s' => if Nat.ltb (length s') (length s) then star_exits f n s' else []) l)).
    { induction l as [|x l IHl]; [rewrite !sum_map_nil; cbn [flat_map]; rewrite sum_map_nil; lia|].
      rewrite sum_map_cons. cbn [flat_map]. rewrite sum_map_app.
      destruct (Nat.ltb (length x) (length s)); [specialize (IH x); lia|rewrite sum_map_nil; lia]. }
    specialize (Hfm (f s)). lia.
Qed.

Lemma star_ok_safe a : star_ok a = true -> safe (ungroup a) = true.
Proof.
  unfold star_ok. destruct (ungroup a) as [|cs|x b|x b|x| | |n x|]; try discriminate; [reflexivity|].
  destruct x; try discriminate. intros H. apply andb_true_iff in H. destruct H as [_ Hs]. cbn [safe].
  clear -Hs. induction b as [|cs|x IHx b IHb|x IHx b IHb|x IHx| | |n x IHx|]; cbn [simple safe] in *; try discriminate; try reflexivity.
  - destruct x; try discriminate. cbn [safe]. apply IHb. exact Hs.
  - destruct x; try discriminate. reflexivity.
Qed.

Lemma ungroup_idem r : ungroup (ungroup r) = ungroup r.
Proof. induction r; cbn [ungroup]; congruence. Qed.

Lemma safe_ungroup r : safe (ungroup r) = safe r.
Proof.
  induction r as [|cs|a IHa b IHb|a IHa b IHb|a IHa| | |n a IHa|]; cbn [ungroup safe]; try reflexivity; try congruence.
  unfold star_ok. rewrite ungroup_idem. reflexivity.
Qed.

(* work of r and of its ungrouped form differ only by the group nodes: bound both by WP *)
Theorem work_bound r : safe r = true -> forall s, work r s <= evalP (WP r) (length s).
Proof.
  induction r as [|cs|a IHa b IHb|a IHa b IHb|a IHa| | |n a IHa|]; cbn [safe]; intros H s; try discriminate;
    try (cbn [work WP]; rewrite evalP_one; lia).
  - apply andb_true_iff in H. destruct H as [Ha Hb]. cbn [work WP].
    etransitivity; [|apply evalP_add]. apply Nat.add_le_mono.
    + etransitivity; [|apply evalP_add]. rewrite evalP_one. specialize (IHa Ha s). lia.
    + rewrite <- evalP_mul.
      etransitivity; [apply (sum_map_le _ _ (evalP (WP b) (length s)))|].
      * intros x Hx. etransitivity; [apply (IHb Hb)|]. apply evalP_mono. apply suffix_len. eapply exits_suffix. exact Hx.
      * apply Nat.mul_le_mono_r. apply exits_bound. exact Ha.
  - apply andb_true_iff in H. destruct H as [Ha Hb]. cbn [work WP].
    etransitivity; [|apply evalP_add]. apply Nat.add_le_mono; [|apply (IHb Hb)].
    etransitivity; [|apply evalP_add]. rewrite evalP_one. specialize (IHa Ha s). lia.
  - (* Star *)
    assert (Hsa : safe a = true) by (rewrite <- safe_ungroup; apply star_ok_safe; exact H).
    cbn [work WP]. etransitivity; [apply star_work_le|].
    rewrite <- evalP_mul.
    etransitivity; [apply (sum_map_le _ _ (evalP (addP oneP (WP a)) (length s)))|].
    + intros x Hx. etransitivity; [|apply evalP_add]. rewrite evalP_one.
      apply Nat.add_le_mono_l. etransitivity; [apply (IHa Hsa)|]. apply evalP_mono. apply suffix_len.
      eapply (star_exits_suffix (exits a)); [intros; eapply exits_suffix; eassumption|exact Hx].
    + apply Nat.mul_le_mono_r. exact (exits_bound (Star a) H s).
  - cbn [work WP]. etransitivity; [|apply evalP_add]. rewrite evalP_one. specialize (IHa H s). lia.
Qed.
