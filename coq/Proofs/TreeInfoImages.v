(* C04: the image tables of a written .treeinfo are read back: per platform exactly the written (name, path) entries, and no
   platform the writer did not write *)
From PM Require Import Base.PyVal Base.Obj Base.Ini Model.Common Model.TreeInfo Proofs.ManifestsProofs Proofs.PyValProofs
     Proofs.ImagesProofs Proofs.IniProofs Proofs.ArchProofs Gen.Tables Proofs.TreeInfoWriter Proofs.TreeInfoChecksums
     Proofs.TreeInfoStage2 Proofs.TreeInfoSections.
From Coq Require Import Permutation.

Definition IM (s : str) : Prop := startswith s (lit "images-") = true.
Definition isec (pi : str * list (str * pyval)) : str := lit "images-" ++ fst pi.

Definition images_step (acc : result ini) (pi : str * list (str * pyval)) : result ini :=
  do q <- acc; let sec := lit "images-" ++ fst pi in do q1 <- add_section q sec; sets q1 sec (snd pi).

Lemma variant_not_IM s : is_variant_section s -> ~ IM s.
Proof.
  unfold is_variant_section, IM. intros [H|H] HI; apply startswith_spec in H; destruct H as (r & ->); vm_compute in HI; discriminate.
Qed.

(* ---- the writer, cut at the image tables *)
Lemma ser_ti_images_stage x mv t : ser_ti x mv = Ok t ->
  exists p10 p11,
    NoDup (map fst t) /\ (forall s, IM s -> assoc s p10 = None) /\ (forall s, IM s -> assoc s t = assoc s p11) /\
    match ti_images x with [] => p11 = p10 | ims => fold_left images_step ims (Ok p10) = Ok p11 end.
Proof.
  intros Hw. unfold ser_ti in Hw.
  inv_bind Hw as u0 G0. inv_bind Hw as u1 G1. inv_bind Hw as p0 Gp0. inv_bind Hw as p1 Gp1. cbv zeta in Hw.
  inv_bind Hw as u2 G2. inv_bind Hw as p2 Gp2. inv_bind Hw as p3 Gp3. inv_bind Hw as p4 Gp4. inv_bind Hw as p5 Gp5.
  inv_bind Hw as u3 G3. inv_bind Hw as p6 Gp6. inv_bind Hw as ts_s Gts. inv_bind Hw as p7 Gp7. inv_bind Hw as u4 G4. inv_bind Hw as p8 Gp8.
  inv_bind Hw as p9 G9. inv_bind Hw as u5 Gc. inv_bind Hw as p10 G10. inv_bind Hw as p11 G11.
  inv_bind Hw as p12 G12. inv_bind Hw as p13 G13.
  exists p10, p11.
  set (P := fun s : str => ~ IM s).
  assert (Ph : P (F"header")) by (intros E; vm_compute in E; discriminate E).
  assert (Pr : P (F"release")) by (intros E; vm_compute in E; discriminate E).
  assert (Pb : P (F"base_product")) by (intros E; vm_compute in E; discriminate E).
  assert (Pt : P (F"tree")) by (intros E; vm_compute in E; discriminate E).
  assert (Pc : P (F"checksums")) by (intros E; vm_compute in E; discriminate E).
  (* the stages up to the checksums *)
  assert (S0 : only_in P [] p10 /\ keeps_nd [] p10).
  { assert (A : only_in P [] p9 /\ keeps_nd [] p9).
    { split.
      - apply (only_in_trans P [] p0); [exact (add_section_only P _ _ _ Gp0 Ph)|].
        apply (only_in_trans P p0 p1); [exact (sets_only P _ _ _ _ Gp1 Ph)|].
        apply (only_in_trans P p1 p2); [exact (add_section_only P _ _ _ Gp2 Pr)|].
        apply (only_in_trans P p2 p3); [exact (sets_only P _ _ _ _ Gp3 Pr)|].
        apply (only_in_trans P p3 p4).
        { destruct (truthy (getf (ti_release x) (F"is_layered"))); [exact (ini_set_only P _ _ _ _ _ Gp4 Pr)|injection Gp4 as <-; apply only_in_refl]. }
        apply (only_in_trans P p4 p5).
        { destruct (truthy (getf (ti_release x) (F"is_layered"))); [|injection Gp5 as <-; apply only_in_refl].
          inv_bind Gp5 as u6 G6. inv_bind Gp5 as q Gq.
          exact (only_in_trans P p4 q p5 (add_section_only P _ _ _ Gq Pb) (sets_only P _ _ _ _ Gp5 Pb)). }
        apply (only_in_trans P p5 p6); [exact (add_section_only P _ _ _ Gp6 Pt)|].
        apply (only_in_trans P p6 p7); [exact (sets_only P _ _ _ _ Gp7 Pt)|].
        apply (only_in_trans P p7 p8); [exact (ini_set_only P _ _ _ _ _ Gp8 Pt)|].
        revert G9. apply fold_only. intros q kv q' Hq.
        apply (only_in_weaken is_variant_section); [|exact (ser_tvar_only _ _ _ _ Hq)].
        intros s0 Hs. exact (variant_not_IM s0 Hs).
      - apply (nd_trans [] p0); [exact (add_section_nd _ _ _ Gp0)|].
        apply (nd_trans p0 p1); [exact (sets_nd _ _ _ _ Gp1)|].
        apply (nd_trans p1 p2); [exact (add_section_nd _ _ _ Gp2)|].
        apply (nd_trans p2 p3); [exact (sets_nd _ _ _ _ Gp3)|].
        apply (nd_trans p3 p4).
        { destruct (truthy (getf (ti_release x) (F"is_layered"))); [exact (ini_set_nd _ _ _ _ _ Gp4)|injection Gp4 as <-; apply nd_refl]. }
        apply (nd_trans p4 p5).
        { destruct (truthy (getf (ti_release x) (F"is_layered"))); [|injection Gp5 as <-; apply nd_refl].
          inv_bind Gp5 as u6 G6. inv_bind Gp5 as q Gq.
          exact (nd_trans p4 q p5 (add_section_nd _ _ _ Gq) (sets_nd _ _ _ _ Gp5)). }
        apply (nd_trans p5 p6); [exact (add_section_nd _ _ _ Gp6)|].
        apply (nd_trans p6 p7); [exact (sets_nd _ _ _ _ Gp7)|].
        apply (nd_trans p7 p8); [exact (ini_set_nd _ _ _ _ _ Gp8)|].
        revert G9. apply fold_nd. intros q kv q' Hq. exact (ser_tvar_nd _ _ _ _ Hq). }
    destruct A as [A1 A2].
    destruct (ti_checksums x) as [|c0 cs0]; [injection G10 as <-; split; assumption|].
    inv_bind G10 as q Gq. split.
    - apply (only_in_trans P [] p9 p10 A1). apply (only_in_trans P p9 q p10 (add_section_only P _ _ _ Gq Pc)).
      revert G10. apply fold_only. intros q0 c q' Hq. exact (ini_set_only P _ _ _ _ _ Hq Pc).
    - apply (nd_trans [] p9 p10 A2). apply (nd_trans p9 q p10 (add_section_nd _ _ _ Gq)).
      revert G10. apply fold_nd. intros q0 c q' Hq. exact (ini_set_nd _ _ _ _ _ Hq). }
  destruct S0 as [O10 N10].
  (* the image tables *)
  assert (N11 : keeps_nd p10 p11).
  { destruct (ti_images x) as [|im ims]; [injection G11 as <-; apply nd_refl|].
    inv_bind G11 as u1' Gi. revert G11. apply fold_nd. intros q0 pi q' Hq. cbv zeta in Hq. inv_bind Hq as q1 Gq1.
    exact (nd_trans q0 q1 q' (add_section_nd _ _ _ Gq1) (sets_nd _ _ _ _ Hq)). }
  (* stage2, media, general *)
  assert (N12 : keeps_nd p11 p12 /\ only_in (fun s => s = F"stage2") p11 p12).
  { set (Ps := fun s : str => s = F"stage2").
    destruct (negb (truthy (getf (ti_stage2 x) (F"mainimage"))) && negb (truthy (getf (ti_stage2 x) (F"instimage"))));
      [injection G12 as <-; split; [apply nd_refl|apply only_in_refl]|].
    inv_bind G12 as u8 Gv. inv_bind G12 as q Gq. inv_bind G12 as q1 Gq1. split.
    - apply (nd_trans p11 q p12 (add_section_nd _ _ _ Gq)). apply (nd_trans q q1 p12).
      + destruct (truthy (getf (ti_stage2 x) (F"mainimage"))); [exact (ini_set_nd _ _ _ _ _ Gq1)|injection Gq1 as <-; apply nd_refl].
      + destruct (truthy (getf (ti_stage2 x) (F"instimage"))); [exact (ini_set_nd _ _ _ _ _ G12)|injection G12 as <-; apply nd_refl].
    - apply (only_in_trans Ps p11 q p12 (add_section_only Ps _ _ _ Gq eq_refl)). apply (only_in_trans Ps q q1 p12).
      + destruct (truthy (getf (ti_stage2 x) (F"mainimage"))); [exact (ini_set_only Ps _ _ _ _ _ Gq1 eq_refl)|injection Gq1 as <-; apply only_in_refl].
      + destruct (truthy (getf (ti_stage2 x) (F"instimage"))); [exact (ini_set_only Ps _ _ _ _ _ G12 eq_refl)|injection G12 as <-; apply only_in_refl]. }
  assert (N13 : keeps_nd p12 p13 /\ only_in (fun s => s = F"media") p12 p13).
  { destruct (negb (truthy (getf (ti_media x) (F"discnum"))) && negb (truthy (getf (ti_media x) (F"totaldiscs"))));
      [injection G13 as <-; split; [apply nd_refl|apply only_in_refl]|].
    inv_bind G13 as u7 Gv3. inv_bind G13 as q Gq. inv_bind G13 as dn Gd. inv_bind G13 as dn_s Gds. inv_bind G13 as td Gt. inv_bind G13 as td_s Gtds.
    split.
    - exact (nd_trans p12 q p13 (add_section_nd _ _ _ Gq) (sets_nd _ _ _ _ G13)).
    - exact (only_in_trans (fun s => s = F"media") p12 q p13 (add_section_only _ _ _ _ Gq eq_refl) (sets_only _ _ _ _ _ G13 eq_refl)). }
  split; [|split; [|split]].
  - apply (ser_general_nd _ _ _ _ Hw). apply (proj1 N13). apply (proj1 N12). apply N11. apply N10. constructor.
  - intros s Hs. rewrite (O10 s); [reflexivity|]. intros Hn. exact (Hn Hs).
  - intros s Hs.
    rewrite (ser_general_only _ _ _ _ Hw s) by (intros ->; vm_compute in Hs; discriminate Hs).
    rewrite (proj2 N13 s) by (intros ->; vm_compute in Hs; discriminate Hs).
    rewrite (proj2 N12 s) by (intros ->; vm_compute in Hs; discriminate Hs). reflexivity.
  - destruct (ti_images x) as [|im ims]; [injection G11 as <-; reflexivity|].
    inv_bind G11 as u1' Gi. exact G11.
Qed.

Lemma images_fold_err l e : fold_left images_step l (Err e) = Err e.
Proof. induction l as [|y l IHl]; cbn [fold_left]; [reflexivity|]. exact IHl. Qed.

Lemma isec_inj a b : isec a = isec b -> fst a = fst b.
Proof. unfold isec. apply app_inv_head. Qed.

Lemma images_fold_spec ims : forall q q',
  fold_left images_step ims (Ok q) = Ok q' -> NoDup (map fst ims) -> (forall pi, In pi ims -> NoDup (map fst (snd pi))) ->
  (forall pi, In pi ims -> exists opts, assoc (isec pi) q' = Some opts /\ NoDup (map fst opts) /\
       (forall n s, In (n, s) opts <-> In (n, PStr s) (snd pi)) /\ (forall n v, In (n, v) (snd pi) -> exists s, v = PStr s)) /\
  only_in (fun s => exists pi, In pi ims /\ s = isec pi) q q'.
Proof.
  induction ims as [|pi ims IH]; intros q q' H Hnd Hin.
  - cbn in H. injection H as <-. split; [intros pi []|apply only_in_refl].
  - cbn [fold_left] in H. unfold images_step at 2 in H. cbn [bind] in H. cbv zeta in H. fold (isec pi) in H.
    destruct (add_section q (isec pi)) as [q1|e] eqn:Ga; cbn [bind] in H; [|rewrite images_fold_err in H; discriminate].
    destruct (sets q1 (isec pi) (snd pi)) as [q2|e] eqn:Gs; [|rewrite images_fold_err in H; discriminate].
    cbn [map] in Hnd. inversion Hnd as [|? ? Hx Hr]; subst.
    destruct (IH q2 q' H Hr (fun pj Hj => Hin pj (or_intror Hj))) as [I1 I2].
    split.
    + intros pj [<-|Hj]; [|exact (I1 pj Hj)].
      destruct (section_written q (isec pi) (snd pi) q1 q2 Ga Gs (Hin pi (or_introl eq_refl))) as (opts & Eo & Hno & Hio).
      exists opts. split; [|split; [exact Hno|split; [exact Hio|exact (sets_all_str _ _ _ _ Gs)]]].
      rewrite (I2 (isec pi)); [exact Eo|]. intros (pk & Hk & Ek). apply Hx. apply isec_inj in Ek. rewrite Ek. apply in_map. exact Hk.
    + apply (only_in_trans _ q q2 q').
      * apply (only_in_trans _ q q1 q2).
        -- apply (add_section_only _ _ _ _ Ga). exists pi. split; [left; reflexivity|reflexivity].
        -- apply (sets_only _ _ _ _ _ Gs). exists pi. split; [left; reflexivity|reflexivity].
      * intros s Hs. apply I2. intros (pk & Hk & ->). apply Hs. exists pk. split; [right; exact Hk|reflexivity].
Qed.

(* ---- the reader's fold over all sections *)
Section fold_key.
  Context {A V : Type} (key : A -> option str) (val : A -> V).
  Definition kstep (acc : list (str * V)) (a : A) := match key a with Some k => assoc_set k (val a) acc | None => acc end.

  Lemma kfold_some l : forall acc k v, (forall a, In a l -> key a = Some k -> val a = v) ->
     ((exists a, In a l /\ key a = Some k) \/ assoc k acc = Some v) -> assoc k (fold_left kstep l acc) = Some v.
  Proof.
    induction l as [|a l IH]; intros acc k v Hu Hex; cbn [fold_left].
    - destruct Hex as [(a & [] & _)|H]; exact H.
    - apply IH; [intros a' Ha'; apply Hu; right; exact Ha'|].
      destruct Hex as [(a0 & [<-|Hin] & Hk)|Hacc].
      + right. unfold kstep. rewrite Hk. rewrite (Hu a (or_introl eq_refl) Hk). apply assoc_set_same.
      + left. exists a0. auto.
      + right. unfold kstep. destruct (key a) as [k'|] eqn:Ek; [|exact Hacc].
        destruct (str_eq_dec k' k) as [->|Hne];
          [rewrite (Hu a (or_introl eq_refl) Ek); apply assoc_set_same|rewrite assoc_set_other; [exact Hacc|exact Hne]].
  Qed.

  Lemma kfold_none l : forall acc k, (forall a, In a l -> key a <> Some k) -> assoc k (fold_left kstep l acc) = assoc k acc.
  Proof.
    induction l as [|a l IH]; intros acc k Hn; cbn [fold_left]; [reflexivity|].
    rewrite IH by (intros a' Ha'; apply Hn; right; exact Ha'). unfold kstep. destruct (key a) as [k'|] eqn:Ek; [|reflexivity].
    apply assoc_set_other. intros ->. exact (Hn a (or_introl eq_refl) Ek).
  Qed.
End fold_key.

Lemma insert_sec_in kv l x : In x (insert_sec kv l) <-> x = kv \/ In x l.
Proof.
  induction l as [|y l IH]; cbn [insert_sec].
  - cbn [In]. split; [intros [E|[]]; left; symmetry; exact E|intros [E|[]]; left; symmetry; exact E].
  - destruct (str_leb (fst kv) (fst y)); cbn [In].
    + split; [intros [E|H]; [left; symmetry; exact E|right; exact H]|intros [E|H]; [left; symmetry; exact E|right; exact H]].
    + rewrite IH. tauto.
Qed.

Lemma sort_secs_in l x : In x (sort_secs l) <-> In x l.
Proof.
  induction l as [|y l IH]; cbn [sort_secs fold_right]; [reflexivity|]. fold (sort_secs l). rewrite insert_sec_in, IH. cbn [In].
  split; [intros [E|H]; [left; symmetry; exact E|right; exact H]|intros [E|H]; [left; symmetry; exact E|right; exact H]].
Qed.

Definition img_key (arch : str) (sec : str * list (str * str)) : option str :=
  if startswith (fst sec) (lit "images-") then
    let plat0 := skipn 7 (fst sec) in
    let sfx := c_dash :: arch in
    Some (if negb (str_eqb plat0 arch) && endswith plat0 sfx then drop_last (length sfx) plat0 else plat0)
  else None.
Definition img_val (sec : str * list (str * str)) : list (str * pyval) := map (fun kv => (fst kv, PStr (snd kv))) (sort_opts (snd sec)).

Definition reader_step (arch : str) (acc : list (str * list (str * pyval))) (sec : str * list (str * str)) :=
  if startswith (fst sec) (lit "images-") then
    let plat0 := skipn 7 (fst sec) in
    let sfx := c_dash :: arch in
    let plat := if negb (str_eqb plat0 arch) && endswith plat0 sfx then drop_last (length sfx) plat0 else plat0 in
    assoc_set plat (map (fun kv => (fst kv, PStr (snd kv))) (sort_opts (snd sec))) acc
  else acc.

Lemma reader_fold arch l : forall acc, fold_left (reader_step arch) l acc = fold_left (kstep (img_key arch) img_val) l acc.
Proof.
  induction l as [|a l IH]; intros acc; cbn [fold_left]; [reflexivity|]. rewrite IH. f_equal.
  unfold reader_step, kstep, img_key. destruct (startswith (fst a) (lit "images-")); reflexivity.
Qed.

Lemma img_key_isec arch pj opts :
  (fst pj = arch \/ endswith (fst pj) (c_dash :: arch) = false) -> img_key arch (isec pj, opts) = Some (fst pj).
Proof.
  intros H. unfold img_key, isec. cbn [fst]. rewrite startswith_app. cbv zeta.
  change (skipn 7 (lit "images-" ++ fst pj)) with (fst pj).
  destruct H as [ -> | -> ]; [rewrite str_eqb_refl; reflexivity|rewrite andb_false_r; reflexivity].
Qed.

Theorem images_read_back x mv t x' :
  ser_ti x mv = Ok t -> deser_ti t = Ok x' -> NoDup (map fst (ti_images x)) ->
  (forall pi, In pi (ti_images x) -> NoDup (map fst (snd pi))) ->
  (forall a, getf (ti_tree x') (F"arch") = PStr a ->
     forall pi, In pi (ti_images x) -> fst pi = a \/ endswith (fst pi) (c_dash :: a) = false) ->
  (forall pi, In pi (ti_images x) ->
     exists tab, assoc (fst pi) (ti_images x') = Some tab /\ forall n v, In (n, v) tab <-> In (n, v) (snd pi)) /\
  (forall k, ~ In k (map fst (ti_images x)) -> assoc k (ti_images x') = None).
Proof.
  intros Hw Hr Hnd Hims Harch.
  destruct (ser_ti_images_stage x mv t Hw) as (p10 & p11 & Nt & A10 & At & G11).
  remember (ti_images x) as ims eqn:Eims.
  assert (G : fold_left images_step ims (Ok p10) = Ok p11) by (destruct ims; [cbn; f_equal; symmetry; exact G11|exact G11]).
  clear G11. destruct (images_fold_spec ims p10 p11 G Hnd Hims) as [I1 I2].
  (* every images-* section of the written table is one of the written platforms *)
  assert (Fim : forall name opts, In (name, opts) t -> IM name -> exists pj, In pj ims /\ name = isec pj).
  { intros name opts Hin HI. pose proof (assoc_in_nodup name opts t Nt Hin) as Ea. rewrite (At name HI) in Ea.
    destruct (in_dec str_eq_dec name (map isec ims)) as [Hi|Hi].
    - apply in_map_iff in Hi. destruct Hi as (pj & <- & Hj). exists pj. auto.
    - exfalso. rewrite (I2 name) in Ea.
      + rewrite (A10 name HI) in Ea. discriminate.
      + intros (pk & Hk & ->). apply Hi. apply in_map. exact Hk. }
  unfold deser_ti in Hr.
  repeat (apply bind_ok in Hr; let y := fresh "y" in let G := fresh "G" in destruct Hr as (y & G & Hr); cbv zeta in Hr).
  injection Hr as <-. cbn [ti_images ti_tree] in *.
  match goal with |- context [fold_left _ (sort_secs t) []] =>
    match goal with Ha : ini_get t _ (F"arch") = Ok ?a |- _ =>
      change (fold_left _ (sort_secs t) []) with (fold_left (reader_step a) (sort_secs t) []);
      pose proof (Harch a eq_refl) as Hsfx; set (arch := a) in * end end.
  rewrite reader_fold.
  split.
  - intros pi Hpi. destruct (I1 pi Hpi) as (opts & Eo & Hno & Hio & Hstr).
    assert (Et : assoc (isec pi) t = Some opts) by (rewrite At; [exact Eo|apply startswith_app]).
    exists (img_val (isec pi, opts)). split.
    + apply kfold_some.
      * intros [name opts'] Ha Hk. apply (proj1 (sort_secs_in _ _)) in Ha.
        assert (HI : IM name).
        { unfold img_key in Hk. cbn [fst] in Hk. unfold IM. destruct (startswith name (lit "images-")); [reflexivity|discriminate]. }
        destruct (Fim name opts' Ha HI) as (pj & Hj & ->).
        rewrite (img_key_isec arch pj opts' (Hsfx pj Hj)) in Hk. injection Hk as Ek.
        assert (Es : isec pj = isec pi) by (unfold isec; rewrite Ek; reflexivity).
        pose proof (assoc_in_nodup _ _ t Nt Ha) as Ea. rewrite Es, Et in Ea. injection Ea as <-. rewrite Es. reflexivity.
      * left. exists (isec pi, opts). split; [apply (proj2 (sort_secs_in _ _)); exact (assoc_In _ _ _ Et)|exact (img_key_isec arch pi opts (Hsfx pi Hpi))].
    + intros n v. unfold img_val. cbn [snd]. split.
      * intros Hin. apply in_map_iff in Hin. destruct Hin as ([n' s] & E & Hs). cbn [fst snd] in E. injection E as <- <-.
        apply (proj1 (sort_opts_in _ _)) in Hs. exact (proj1 (Hio n' s) Hs).
      * intros Hin. destruct (Hstr n v Hin) as (s & ->). apply in_map_iff. exists (n, s). split; [reflexivity|].
        apply (proj2 (sort_opts_in _ _)). exact (proj2 (Hio n s) Hin).
  - intros k Hk. rewrite kfold_none; [reflexivity|].
    intros [name opts'] Ha Hkey. apply (proj1 (sort_secs_in _ _)) in Ha.
    assert (HI : IM name).
    { unfold img_key in Hkey. cbn [fst] in Hkey. unfold IM. destruct (startswith name (lit "images-")); [reflexivity|discriminate]. }
    destruct (Fim name opts' Ha HI) as (pj & Hj & ->).
    rewrite (img_key_isec arch pj opts' (Hsfx pj Hj)) in Hkey. injection Hkey as Ek. apply Hk. rewrite <- Ek. apply in_map. exact Hj.
Qed.

(* the hypotheses are satisfiable: a tree with image tables for two platforms (one of them dashed) is written, read, and meets them *)
Definition ex_ti_images : ti :=
  {| ti_release := ti_release ex_ti; ti_base_product := ti_base_product ex_ti; ti_tree := ti_tree ex_ti; ti_variants := ti_variants ex_ti;
     ti_checksums := [];
     ti_images := [(F"x86_64", [(F"kernel", PStr (F"images/pxeboot/vmlinuz")); (F"boot.iso", PStr (F"images/boot.iso"))]);
                   (F"xen", [(F"kernel", PStr (F"images/pxeboot/vmlinuz-xen"))])];
     ti_stage2 := ti_stage2 ex_ti; ti_media := ti_media ex_ti |}.

Example images_read_back_nonvacuous :
  exists t x', ser_ti ex_ti_images None = Ok t /\ deser_ti t = Ok x' /\ NoDup (map fst (ti_images ex_ti_images)) /\
    (forall pi, In pi (ti_images ex_ti_images) -> NoDup (map fst (snd pi))) /\
    getf (ti_tree x') (F"arch") = PStr (F"x86_64") /\
    (forall pi, In pi (ti_images ex_ti_images) -> fst pi = F"x86_64" \/ endswith (fst pi) (c_dash :: F"x86_64") = false) /\
    assoc (F"xen") (ti_images x') = Some [(F"kernel", PStr (F"images/pxeboot/vmlinuz-xen"))].
Proof.
  eexists. eexists. split; [vm_compute; reflexivity|]. split; [vm_compute; reflexivity|].
  split; [repeat constructor; cbn; intros H; repeat (destruct H as [H|H]; [discriminate H|]); exact H|].
  split.
  { intros pi [<-|[<-|[]]]; repeat constructor; cbn; intros H; repeat (destruct H as [H|H]; [discriminate H|]); exact H. }
  split; [vm_compute; reflexivity|]. split; [|vm_compute; reflexivity].
  intros pi [<-|[<-|[]]]; [left; reflexivity|right; vm_compute; reflexivity].
Qed.
