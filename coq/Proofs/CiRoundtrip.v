(* C01: the whole composeinfo document - load (dump x) gives x back (path tables as written), and dumping that again gives the same document *)
From PM Require Import Base.PyVal Base.Obj Model.Common Model.Variants Model.ComposeInfo
     Proofs.ManifestsProofs Proofs.PyValProofs Proofs.CommonProofs Proofs.LoadValid Proofs.KeySort
     Proofs.ReleaseRoundtrip Proofs.PathsRoundtrip Proofs.ForestFlat Proofs.ForestRoundtrip Gen.Tables Gen.Validators.

Definition ci_normal (x : ci) : Prop :=
  compose_normal (ci_compose x) /\
  (exists name version short ty lay internal,
     ci_release x = mk_release name version short ty lay internal /\
     if lay then exists bn bv bs bt, ci_base_product x = mk_base_product bn bv bs bt
     else ci_base_product x = fresh_base_product) /\
  forest_normal (ci_variants x).

Definition wp_ci (x : ci) : ci :=
  {| ci_compose := ci_compose x; ci_release := ci_release x; ci_base_product := ci_base_product x;
     ci_variants := wp_list (ci_variants x) |}.

Theorem ci_roundtrip x doc :
  ci_normal x -> NoDup (forest_uids (ci_variants x)) ->
  dump_ci x = Ok doc -> load_ci doc = Ok (wp_ci x).
Proof.
  intros (Hc & (name & version & short & ty & lay & internal & Hr & Hbp) & Hf) Hnd H.
  unfold dump_ci in H. apply bind_ok in H. destruct H as (u0 & Hv0 & H). unfold ser_ci in H.
  rewrite ser_header_ok in H. cbn [bind] in H.
  apply bind_ok in H. destruct H as (jc & Hjc & H).
  apply bind_ok in H. destruct H as ([sr jr] & Hjr & H).
  apply bind_ok in H. destruct H as (bp & Hjb & H).
  apply bind_ok in H. destruct H as (jv & Hjv & H). injection H as <-.
  pose proof (ser_release_section _ _ _ _ Hjr) as Es. cbn [fst] in Es. subst sr.
  assert (Hjv' : exists d, jv = PDict d).
  { unfold ser_variants in Hjv. apply bind_ok in Hjv. destruct Hjv as (? & _ & Hjv). apply bind_ok in Hjv. destruct Hjv as (d & _ & Hjv).
    injection Hjv as <-. exists d. reflexivity. }
  destruct Hjv' as (d & ->).
  unfold load_ci, deser_ci. unfold ci_mtype. rewrite deser_header_ser. cbn [bind snd].
  match goal with |- context [dget (PDict [(?hk, ?h); (?pk, ?P)]) ?k] => change (dget (PDict [(hk, h); (pk, P)]) k) with (Ok P) end.
  cbn [bind].
  change ([(F"compose", jc); (F"release", jr)] ++ bp ++ [(F"variants", PDict d)])
    with ((F"compose", jc) :: ((F"release", jr) :: bp ++ [(F"variants", PDict d)])).
  rewrite (deser_compose_ser _ _ _ Hc Hjc). cbn [bind].
  rewrite Hr in Hjr. rewrite (release_roundtrip name version short ty lay internal (F"release") jr _ Hjr) by reflexivity. cbn [bind].
  rewrite <- Hr.
  match goal with |- context [deser_variants VERSION ?P] => set (payload := P) end.
  assert (Hlay : truthy (getf (ci_release x) (F"is_layered")) = lay) by (rewrite Hr; destruct lay; reflexivity).
  rewrite Hlay in Hjb |- *.
  assert (Hbpread : (if lay then deser_base_product payload else Ok fresh_base_product) = Ok (ci_base_product x) /\
                    dget payload (F"variants") = Ok (PDict d)).
  { destruct lay.
    - destruct Hbp as (bn & bv & bs & bt & Hb). apply bind_ok in Hjb. destruct Hjb as ([sb jb] & Hjb & E). injection E as <-.
      pose proof (ser_release_section _ _ _ _ Hjb) as Es. cbn [fst] in Es. subst sb. rewrite Hb in Hjb |- *.
      split; [|reflexivity]. apply (base_product_roundtrip bn bv bs bt (F"base_product") jb _ Hjb). reflexivity.
    - injection Hjb as <-. rewrite Hbp. split; reflexivity. }
  destruct Hbpread as (Hb1 & Hb2). rewrite Hb1. cbn [bind].
  rewrite (forest_roundtrip (ci_variants x) d _ Hf Hnd Hjv Hb2). cbn [bind].
  rewrite (unit_ok _ _ Hv0). reflexivity.
Qed.

(* ---- the second write: what was read back is written as the same document *)
Lemma ser_paths_tab_idem archs paths : ser_paths_tab archs (ser_paths_tab archs paths) = ser_paths_tab archs paths.
Proof.
  unfold ser_paths_tab at 1 3. apply setp_ext. intros [a n] Hin. cbn [fst snd].
  unfold path_val at 1. change (assoc a (dflt [] (assoc n (ser_paths_tab archs paths)))) with (get2 (ser_paths_tab archs paths) n a).
  rewrite ser_paths_tab_get, (in_pairs a n archs Hin).
  destruct (path_val paths a n) as [v|] eqn:E; [rewrite (path_val_truthy _ _ _ _ E); reflexivity|reflexivity].
Qed.

Lemma ser_paths_wp a archs paths : strs_of (sort_set a) = Some archs -> ser_paths a (ser_paths_tab archs paths) = ser_paths a paths.
Proof. intros H. rewrite (ser_paths_shape a archs _ H), (ser_paths_shape a archs paths H), ser_paths_tab_idem. reflexivity. Qed.

Lemma ser_children_wp me cs :
  (forall k c, In (k, c) cs -> forall parent data, ser_variant parent (wp c) data = ser_variant parent c data) ->
  forall data, ser_children me (wp_list cs) data = ser_children me cs data.
Proof.
  induction cs as [|[k c] cs IH]; intros Hc data; [reflexivity|].
  cbn [wp_list map fst snd ser_children]. rewrite (Hc k c (or_introl eq_refl)).
  destruct (ser_variant me c data) as [d'|e]; cbn [bind]; [|reflexivity].
  apply (IH (fun k' c' Hin => Hc k' c' (or_intror Hin))).
Qed.

Lemma ser_variant_wp t : tree_all node_normal t -> forall parent data, ser_variant parent (wp t) data = ser_variant parent t data.
Proof.
  induction t as [f paths rel cs IH] using vtree_ind2. intros Hn parent data.
  apply tree_all_unfold in Hn. destruct Hn as [Hnode Hnc].
  destruct Hnode as ((i & u & n & ty & a & archs & Hf & Hsa & Hstrs) & _). cbn [vt_fields] in Hf. subst f.
  assert (Estrs : strs (arches_of (mk_fields i u n ty a)) = archs).
  { change (arches_of (mk_fields i u n ty a)) with a. unfold strs. rewrite Hstrs. reflexivity. }
  change (wp (VT (mk_fields i u n ty a) paths rel cs))
    with (VT (mk_fields i u n ty a) (ser_paths_tab (strs (arches_of (mk_fields i u n ty a))) paths) rel (wp_list cs)).
  rewrite Estrs, !ser_variant_unfold. cbv zeta.
  change (arches_of (mk_fields i u n ty a)) with a.
  rewrite (ser_paths_wp a archs paths) by (rewrite Hsa; exact Hstrs).
  rewrite (ser_children_wp _ cs) by (intros k c Hin p d; exact (IH k c Hin (Hnc k c Hin) p d)).
  assert (Eids : map (fun kv : str * vtree => getf (vt_fields (snd kv)) (F"id")) (wp_list cs) =
                 map (fun kv : str * vtree => getf (vt_fields (snd kv)) (F"id")) cs).
  { unfold wp_list. rewrite map_map. apply map_ext. intros [k c]. cbn [snd]. rewrite wp_fields. reflexivity. }
  rewrite Eids.
  assert (Ev : validate_tree_node parent (VT (mk_fields i u n ty a) (ser_paths_tab archs paths) rel (wp_list cs)) =
               validate_tree_node parent (VT (mk_fields i u n ty a) paths rel cs)).
  { rewrite <- (validate_tree_node_wp parent (VT (mk_fields i u n ty a) paths rel cs)). cbn [wp]. rewrite Estrs. reflexivity. }
  rewrite Ev. destruct cs; reflexivity.
Qed.

Theorem ser_variants_wp vs : forest_all node_normal vs -> ser_variants (wp_list vs) = ser_variants vs.
Proof.
  intros Hn. unfold ser_variants.
  assert (Es : sort_keys (wp_list vs) = wp_list (sort_keys vs)) by apply (sort_keys_map wp vs).
  assert (Ec : validate_container (wp_list vs) = validate_container vs).
  { unfold validate_container. rewrite Es. unfold wp_list. rewrite map_map.
    rewrite (map_ext (fun x : str * vtree => child_ctx_entry true (fst x, wp (snd x))) (child_ctx_entry true)); [reflexivity|].
    intros [k c]. unfold child_ctx_entry. cbn [fst snd]. rewrite wp_fields. reflexivity. }
  rewrite Ec, Es. destruct (validate_container vs) as [[]|e]; cbn [bind]; [|reflexivity].
  assert (Hn' : forest_all node_normal (sort_keys vs)).
  { intros k c H. apply (Hn k c). exact (Permutation.Permutation_in _ (sort_keys_is_perm vs) H). }
  assert (Ef : forall l acc, forest_all node_normal l ->
            fold_left (fun acc kv => do d <- acc; ser_variant None (snd kv) d) (wp_list l) acc =
            fold_left (fun acc kv => do d <- acc; ser_variant None (snd kv) d) l acc).
  { induction l as [|[k c] l IHl]; intros acc Hl; [reflexivity|]. cbn [wp_list map fold_left fst snd].
    assert (E1 : (do d <- acc; ser_variant None (wp c) d) = (do d <- acc; ser_variant None c d)).
    { destruct acc as [d|e]; cbn [bind]; [|reflexivity]. apply ser_variant_wp. exact (Hl k c (or_introl eq_refl)). }
    rewrite E1. apply IHl. intros k' c' Hin. apply (Hl k' c'). right. exact Hin. }
  rewrite (Ef _ _ Hn'). reflexivity.
Qed.

Theorem ci_second_write x : forest_all node_normal (ci_variants x) -> dump_ci (wp_ci x) = dump_ci x.
Proof.
  intros Hn. unfold dump_ci, ser_ci, wp_ci. cbn [ci_compose ci_release ci_base_product ci_variants].
  rewrite (ser_variants_wp _ Hn). reflexivity.
Qed.

(* ---- the image of the reader is normal again (so the cycle can be repeated) *)
Lemma node_normal_wp t : node_normal t -> node_normal (wp t).
Proof.
  destruct t as [f paths rel cs]. intros (Hf & Hr & Hk & Hs). unfold node_normal. cbn [wp vt_fields vt_release vt_children] in *.
  split; [exact Hf|]. split; [exact Hr|]. split.
  - rewrite Forall_forall in *. intros kc Hin. apply in_map_iff in Hin. destruct Hin as ([k c] & <- & Hin). cbn [fst snd].
    rewrite wp_fields. exact (Hk (k, c) Hin).
  - rewrite map_map. cbn [fst]. exact Hs.
Qed.

Lemma tree_normal_wp t : tree_all node_normal t -> tree_all node_normal (wp t).
Proof.
  induction t as [f paths rel cs IH] using vtree_ind2. intros H. apply tree_all_unfold in H. destruct H as [Hn Hc].
  change (wp (VT f paths rel cs)) with (VT f (ser_paths_tab (strs (arches_of f)) paths) rel (wp_list cs)).
  apply tree_all_unfold. split; [exact (node_normal_wp (VT f paths rel cs) Hn)|].
  intros k c Hin. unfold wp_list in Hin. apply in_map_iff in Hin. destruct Hin as ([k0 c0] & E & Hin). injection E as <- <-.
  exact (IH k0 c0 Hin (Hc k0 c0 Hin)).
Qed.

Theorem forest_normal_wp vs : forest_normal vs -> forest_normal (wp_list vs).
Proof.
  intros (Hn & Hids & Hk & Hu). unfold forest_normal, wp_list. repeat split.
  - intros k c Hin. apply in_map_iff in Hin. destruct Hin as ([k0 c0] & E & Hin). injection E as <- <-. apply tree_normal_wp. exact (Hn k0 c0 Hin).
  - rewrite Forall_forall in *. intros kc Hin. apply in_map_iff in Hin. destruct Hin as ([k c] & <- & Hin). cbn [fst snd].
    rewrite wp_fields. exact (Hids (k, c) Hin).
  - rewrite map_map. cbn [fst]. exact Hk.
  - rewrite map_map. cbn [snd]. rewrite (map_ext (fun x : str * vtree => uid_s (wp (snd x))) (fun kc => uid_s (snd kc))); [exact Hu|].
    intros [k c]. unfold uid_s. cbn [snd]. rewrite wp_fields. reflexivity.
Qed.

(* ---- non-vacuity: a forest of depth 3 with a layered-product variant, paths (one empty, one for a foreign architecture),
   a layered release with a base product: it is normal, its UIDs are distinct, and the library (model) agrees to write it *)
Definition ex_leaf (i u ty : str) (a : list pyval) : vtree := VT (mk_fields i u (PStr i) (PStr ty) a) [] fresh_release [].
Definition ex_forest : list (str * vtree) :=
  [(F"Server", VT (mk_fields (F"Server") (F"Server") (PStr (F"Server")) (PStr (F"variant")) [PStr (F"s390x"); PStr (F"x86_64")])
                  [(F"os_tree", [(F"x86_64", PStr (F"Server/x86_64/os")); (F"ppc64le", PStr (F"nowhere"))]); (F"packages", [(F"s390x", PStr [])])]
                  fresh_release
                  [(F"HA", VT (mk_fields (F"HA") (F"Server-HA") (PStr (F"High Availability")) (PStr (F"addon")) [PStr (F"x86_64")]) [] fresh_release
                              [(F"Extra", ex_leaf (F"Extra") (F"Server-HA-Extra") (F"optional") [PStr (F"x86_64")])]);
                   (F"optional", ex_leaf (F"optional") (F"Server-optional") (F"optional") [PStr (F"s390x")])]);
   (F"ToolsLP", VT (mk_fields (F"ToolsLP") (F"Tools-LP") (PStr (F"Tools")) (PStr (F"layered-product")) [PStr (F"x86_64")]) []
                   (mk_release (PStr (F"Tools")) (PStr (F"1.0")) (PStr (F"TL")) (PStr (F"ga")) true false) [])].
Definition ex_ci : ci :=
  {| ci_compose := mk_compose (PStr (F"Fedora-22-20150522.n.0")) (PStr (F"nightly")) (PStr (F"20150522")) (PInt 0) PNone (PBool false);
     ci_release := mk_release (PStr (F"Fedora")) (PStr (F"22")) (PStr (F"F")) (PStr (F"ga")) true false;
     ci_base_product := mk_base_product (PStr (F"Base")) (PStr (F"7")) (PStr (F"B")) (PStr (F"ga"));
     ci_variants := ex_forest |}.

Ltac nn :=
  split; [do 6 eexists; split; [reflexivity|split; vm_compute; reflexivity]|];
  split; [match goal with |- if ?b then _ else _ => let v := eval vm_compute in b in change b with v; cbv iota end;
          first [reflexivity|do 5 eexists; reflexivity]|];
  split; [repeat constructor|cbn [ssorted map fst vt_children]; repeat (split || constructor)].

Example ci_roundtrip_nonvacuous :
  ci_normal ex_ci /\ NoDup (forest_uids (ci_variants ex_ci)) /\ exists doc, dump_ci ex_ci = Ok doc.
Proof.
  split; [|split].
  - split; [|split].
    + exists (PStr (F"Fedora-22-20150522.n.0")), (PStr (F"nightly")), (PStr (F"20150522")), (PInt 0), PNone, false.
      split; [reflexivity|]. split; [left; reflexivity|reflexivity].
    + do 6 eexists. split; [reflexivity|]. do 4 eexists. reflexivity.
    + split; [|split; [|split]].
      * intros k c [E|[E|[]]]; injection E as <- <-; cbn [tree_all ex_leaf];
          repeat match goal with |- _ /\ _ => split | |- True => exact I | |- node_normal _ => nn end.
      * repeat constructor.
      * cbn. repeat constructor; cbn; intros H; repeat destruct H as [H|H]; try discriminate; exact H.
      * cbn [ssorted map snd ex_ci ci_variants ex_forest]. repeat (split || constructor).
  - assert (E : forest_uids (ci_variants ex_ci) = [F"Server-HA-Extra"; F"Server-HA"; F"Server-optional"; F"Server"; F"Tools-LP"]) by (vm_compute; reflexivity).
    rewrite E. repeat constructor; cbn; intros H; repeat destruct H as [H|H]; try discriminate; exact H.
  - eexists. vm_compute. reflexivity.
Qed.

(* ---- C08: the order in which top-level variants were added is not content *)
Theorem ser_variants_perm vs vs' : Permutation.Permutation vs vs' -> NoDup (map fst vs) -> ser_variants vs = ser_variants vs'.
Proof. intros Hp Hn. unfold ser_variants, validate_container. rewrite (sort_keys_perm vs vs' Hp Hn). reflexivity. Qed.

Theorem dump_ci_perm x vs' :
  Permutation.Permutation (ci_variants x) vs' -> NoDup (map fst (ci_variants x)) ->
  dump_ci x = dump_ci {| ci_compose := ci_compose x; ci_release := ci_release x; ci_base_product := ci_base_product x; ci_variants := vs' |}.
Proof. intros Hp Hn. unfold dump_ci, ser_ci. cbn [ci_compose ci_release ci_base_product ci_variants]. rewrite (ser_variants_perm _ _ Hp Hn). reflexivity. Qed.
