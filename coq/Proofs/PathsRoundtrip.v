(* C01: the per-architecture path tables of a composeinfo variant survive serialize / deserialize *)
From PM Require Import Base.PyVal Base.Obj Model.Common Model.ComposeInfo Proofs.ManifestsProofs Proofs.PyValProofs
     Proofs.ImagesProofs Proofs.ImagesManifest Gen.Tables.

(* ---- two-level tables *)
Definition tab2 := list (str * list (str * pyval)).
Definition upd2 (name arch : str) (v : pyval) (t : tab2) : tab2 := upd name (fun o => assoc_set arch v (dflt [] o)) t.
Definition get2 (t : tab2) (name arch : str) : option pyval := assoc arch (dflt [] (assoc name t)).

Lemma get2_upd2_same t name arch v : get2 (upd2 name arch v t) name arch = Some v.
Proof. unfold get2, upd2. rewrite assoc_upd_same. cbn [dflt]. apply assoc_set_same. Qed.

Lemma get2_upd2_other t name arch v name' arch' :
  (name', arch') <> (name, arch) -> get2 (upd2 name arch v t) name' arch' = get2 t name' arch'.
Proof.
  intros Hne. unfold get2, upd2. destruct (str_eq_dec name name') as [<-|Hn].
  - rewrite assoc_upd_same. cbn [dflt]. apply assoc_set_other. intros E. apply Hne. congruence.
  - rewrite (assoc_upd_other _ _ _ _ Hn). reflexivity.
Qed.

(* ---- the double loop as one loop over (arch, name) pairs *)
Definition pairs_of_arches (archs : list str) : list (str * str) :=
  flat_map (fun a => map (fun n => (a, n)) CI_PATH_FIELDS) archs.

Definition setp (val : str -> str -> option pyval) (t : tab2) (p : str * str) : tab2 :=
  match val (fst p) (snd p) with Some v => upd2 (snd p) (fst p) v t | None => t end.

Lemma get2_fold val pairs : forall t name arch,
  get2 (fold_left (setp val) pairs t) name arch =
  if existsb (fun p => str_eqb (fst p) arch && str_eqb (snd p) name) pairs
  then match val arch name with Some v => Some v | None => get2 t name arch end
  else get2 t name arch.
Proof.
  induction pairs as [|[a n] pairs IH]; intros t name arch; cbn [fold_left existsb fst snd]; [reflexivity|].
  rewrite IH.
  assert (G : get2 (setp val t (a, n)) name arch =
              if str_eqb a arch && str_eqb n name then match val arch name with Some v => Some v | None => get2 t name arch end
              else get2 t name arch).
  { unfold setp. cbn [fst snd]. destruct (str_eqb_spec a arch) as [->|Ha]; cbn [andb].
    - destruct (str_eqb_spec n name) as [->|Hn].
      + destruct (val arch name) as [v|]; [apply get2_upd2_same|reflexivity].
      + destruct (val arch n); [|reflexivity]. apply get2_upd2_other. congruence.
    - destruct (val a n); [|reflexivity]. apply get2_upd2_other. congruence. }
  rewrite G. destruct (str_eqb a arch && str_eqb n name); cbn [orb]; destruct (existsb _ pairs); destruct (val arch name); reflexivity.
Qed.

(* ---- the writer, without the PDict wrappers *)
Definition path_val (paths : tab2) (arch name : str) : option pyval :=
  match assoc arch (dflt [] (assoc name paths)) with
  | Some v => if truthy v then Some v else None
  | None => None
  end.

Definition strs_of (l : list pyval) : option (list str) :=
  fold_right (fun v acc => match v, acc with PStr s, Some r => Some (s :: r) | _, _ => None end) (Some []) l.

Definition ser_paths_tab (archs : list str) (paths : tab2) : tab2 :=
  fold_left (setp (path_val paths)) (pairs_of_arches archs) [].

Lemma fold_names (f : tab2 -> str * str -> tab2) a names t :
  fold_left (fun acc n => f acc (a, n)) names t = fold_left f (map (fun n => (a, n)) names) t.
Proof. revert t. induction names as [|n names IH]; intros t; [reflexivity|]. cbn [map fold_left]. apply IH. Qed.

Lemma wrap_upd name arch v (t : tab2) :
  map_snd PDict (upd2 name arch v t) =
  upd name (fun o => PDict (assoc_set arch v (match o with Some (PDict d) => d | _ => [] end))) (map_snd PDict t).
Proof.
  unfold upd2. apply upd_map_snd. destruct (assoc name t); reflexivity.
Qed.

Lemma assoc_wrap name (t : tab2) : assoc name (map_snd PDict t) = option_map PDict (assoc name t).
Proof. apply assoc_map_snd. Qed.

Definition ser_inner (paths : tab2) (arch : str) (acc : list (str * pyval)) : list (str * pyval) :=
  fold_left (fun acc2 name =>
     match assoc arch (dflt [] (assoc name paths)) with
     | Some v => if truthy v
                 then upd name (fun o => PDict (assoc_set arch v (match o with Some (PDict d) => d | _ => [] end))) acc2
                 else acc2
     | None => acc2
     end) CI_PATH_FIELDS acc.

Lemma ser_inner_wrap paths s (t : tab2) :
  ser_inner paths s (map_snd PDict t) = map_snd PDict (fold_left (setp (path_val paths)) (map (fun n => (s, n)) CI_PATH_FIELDS) t).
Proof.
  unfold ser_inner. generalize CI_PATH_FIELDS as names. intros names. revert t. induction names as [|n names IHn]; intros t; [reflexivity|].
  cbn [fold_left map]. unfold setp at 2. cbn [fst snd]. unfold path_val at 2.
  destruct (assoc s (dflt [] (assoc n paths))) as [v|]; [|apply IHn].
  destruct (truthy v); [|apply IHn]. rewrite <- wrap_upd. apply IHn.
Qed.

Lemma ser_loop paths : forall l archs (t : tab2),
  strs_of l = Some archs ->
  fold_left (fun acc a => match a with PStr arch => ser_inner paths arch acc | _ => acc end) l (map_snd PDict t) =
  map_snd PDict (fold_left (setp (path_val paths)) (pairs_of_arches archs) t).
Proof.
  induction l as [|a l IH]; intros archs t Hs; cbn [strs_of fold_right] in Hs.
  - injection Hs as <-. reflexivity.
  - destruct a as [| | | |s| |]; try discriminate.
    destruct (fold_right _ (Some []) l) as [r|] eqn:Er; [|discriminate]. injection Hs as <-.
    cbn [fold_left pairs_of_arches flat_map]. rewrite fold_left_app, ser_inner_wrap. apply (IH r). exact Er.
Qed.

Lemma ser_paths_shape arches archs paths :
  strs_of (sort_set arches) = Some archs ->
  ser_paths arches paths = PDict (map_snd PDict (ser_paths_tab archs paths)).
Proof.
  intros Hs.
  assert (E : ser_paths arches paths =
              PDict (fold_left (fun acc a => match a with PStr arch => ser_inner paths arch acc | _ => acc end) (sort_set arches) []))
    by (unfold ser_paths, ser_inner; reflexivity).
  rewrite E. unfold ser_paths_tab. f_equal.
  change (@nil (str * pyval)) with (map_snd PDict (@nil (str * list (str * pyval)))) at 1.
  apply ser_loop. exact Hs.
Qed.

(* ---- the reader on a wrapped table *)
Definition read_val (T : tab2) (arch name : str) : option pyval :=
  match get2 T name arch with Some v => if truthy v then Some v else None | None => None end.

Lemma deser_inner T s names : forall t,
  fold_left (fun acc2 name =>
     do t2 <- acc2;
     do tab <- dget_default (PDict (map_snd PDict T)) name (PDict []);
     do v <- dget_default tab s PNone;
     Ok (if truthy v then upd name (fun o => assoc_set s v (dflt [] o)) t2 else t2)) names (Ok t) =
  Ok (fold_left (setp (read_val T)) (map (fun n => (s, n)) names) t).
Proof.
  induction names as [|n names IH]; intros t; [reflexivity|]. cbn [fold_left map bind].
  unfold setp at 2. cbn [fst snd]. unfold read_val at 2, get2, upd2.
  unfold dget_default at 1. cbn [dget_default]. rewrite assoc_wrap.
  destruct (assoc n T) as [d|]; cbn [option_map dflt bind].
  - unfold dget_default. destruct (assoc s d) as [v|]; cbn [dflt bind].
    + destruct (truthy v); apply IH.
    + cbn [truthy]. apply IH.
  - cbn [dget_default assoc dflt bind truthy]. apply IH.
Qed.

Lemma setp_ext (f g : str -> str -> option pyval) pairs : forall t,
  (forall p, In p pairs -> f (fst p) (snd p) = g (fst p) (snd p)) ->
  fold_left (setp f) pairs t = fold_left (setp g) pairs t.
Proof.
  induction pairs as [|p pairs IH]; intros t H; [reflexivity|]. cbn [fold_left].
  unfold setp at 2 4. rewrite (H p (or_introl eq_refl)). apply IH. intros q Hq. apply H. right. exact Hq.
Qed.

Lemma deser_outer T : forall l archs t,
  strs_of l = Some archs ->
  fold_left (fun acc a =>
     do t <- acc;
     match a with
     | PStr arch =>
         fold_left (fun acc2 name =>
           do t2 <- acc2;
           do tab <- dget_default (PDict (map_snd PDict T)) name (PDict []);
           do v <- dget_default tab arch PNone;
           Ok (if truthy v then upd name (fun o => assoc_set arch v (dflt [] o)) t2 else t2)) CI_PATH_FIELDS (Ok t)
     | _ => Err TypeError
     end) l (Ok t) =
  Ok (fold_left (setp (read_val T)) (pairs_of_arches archs) t).
Proof.
  induction l as [|a l IH]; intros archs t Hs; cbn [strs_of fold_right] in Hs.
  - injection Hs as <-. reflexivity.
  - destruct a as [| | | |s| |]; try discriminate.
    destruct (fold_right _ (Some []) l) as [r|] eqn:Er; [|discriminate]. injection Hs as <-.
    cbn [fold_left bind pairs_of_arches flat_map]. rewrite deser_inner, fold_left_app. apply (IH r). exact Er.
Qed.

Lemma in_pairs a n archs : In (a, n) (pairs_of_arches archs) ->
  existsb (fun p => str_eqb (fst p) a && str_eqb (snd p) n) (pairs_of_arches archs) = true.
Proof.
  intros H. apply existsb_exists. exists (a, n). split; [exact H|]. cbn [fst snd]. rewrite !str_eqb_refl. reflexivity.
Qed.

Lemma path_val_truthy paths a n v : path_val paths a n = Some v -> truthy v = true.
Proof. unfold path_val. destruct (assoc a _) as [w|]; [|discriminate]. destruct (truthy w) eqn:E; [|discriminate]. congruence. Qed.

(* the paths a variant is written with are read back exactly: per architecture of the variant and per category, the truthy
   entries, in the writer's order *)
Theorem paths_roundtrip arches archs paths :
  strs_of (sort_set arches) = Some archs ->
  deser_paths arches (ser_paths arches paths) = Ok (ser_paths_tab archs paths).
Proof.
  intros Hs. rewrite (ser_paths_shape arches archs paths Hs). unfold deser_paths.
  rewrite (deser_outer (ser_paths_tab archs paths) (sort_set arches) archs [] Hs). f_equal.
  unfold ser_paths_tab at 2. apply setp_ext. intros [a n] Hin. cbn [fst snd].
  unfold read_val, ser_paths_tab. rewrite get2_fold, (in_pairs a n archs Hin).
  destruct (path_val paths a n) as [v|] eqn:E; [rewrite (path_val_truthy _ _ _ _ E); reflexivity|reflexivity].
Qed.

(* ... and that table holds exactly the truthy entries for the variant's architectures *)
Theorem ser_paths_tab_get archs paths name arch :
  get2 (ser_paths_tab archs paths) name arch =
  if existsb (fun p => str_eqb (fst p) arch && str_eqb (snd p) name) (pairs_of_arches archs) then path_val paths arch name else None.
Proof.
  unfold ser_paths_tab. rewrite get2_fold. destruct (existsb _ _); [destruct (path_val paths arch name); reflexivity|reflexivity].
Qed.

Example paths_roundtrip_nonvacuous :
  let arches := [PStr (F"x86_64"); PStr (F"ppc64le"); PStr (F"x86_64")] in
  let paths := [(F"os_tree", [(F"x86_64", PStr (F"Server/x86_64/os")); (F"s390x", PStr (F"Server/s390x/os"))]);
                (F"packages", [(F"ppc64le", PStr (F"Server/ppc64le/os/Packages")); (F"x86_64", PStr [])])] in
  strs_of (sort_set arches) = Some [F"ppc64le"; F"x86_64"] /\
  get2 (ser_paths_tab [F"ppc64le"; F"x86_64"] paths) (F"os_tree") (F"x86_64") = Some (PStr (F"Server/x86_64/os")) /\
  get2 (ser_paths_tab [F"ppc64le"; F"x86_64"] paths) (F"os_tree") (F"s390x") = None /\
  get2 (ser_paths_tab [F"ppc64le"; F"x86_64"] paths) (F"packages") (F"x86_64") = None.
Proof. repeat split; vm_compute; reflexivity. Qed.
