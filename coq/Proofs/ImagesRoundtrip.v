(* C02: an image survives serialize / deserialize with all fifteen attributes *)
From PM Require Import Base.PyVal Base.Obj Model.Common Model.Images Proofs.CommonProofs Proofs.PyValProofs Gen.Tables Gen.Validators.

Definition mk_image (path mtime size volume_id ty format arch disc_number disc_count checksums implant_md5
                     bootable subvariant unified additional_variants : pyval) : obj :=
  [(F"path", path); (F"mtime", mtime); (F"size", size); (F"volume_id", volume_id); (F"type", ty);
   (F"format", format); (F"arch", arch); (F"disc_number", disc_number); (F"disc_count", disc_count); (F"checksums", checksums);
   (F"implant_md5", implant_md5); (F"bootable", bootable); (F"subvariant", subvariant);
   (F"unified", unified); (F"additional_variants", additional_variants)].

(* the shape every loaded image has: integers are ints, flags are bools, a non-unified image lists no additional variants *)
Definition image_normal (o : obj) : Prop :=
  exists path mtime size volume_id ty format arch dn dc checksums implant bootable subvariant unified addl,
    o = mk_image path (PInt mtime) (PInt size) volume_id ty format arch (PInt dn) (PInt dc) checksums implant
                 (PBool bootable) subvariant (PBool unified) addl /\
    (unified = false -> addl = PList []).

Theorem image_roundtrip o j :
  image_normal o -> ser_image o = Ok j -> deser_image VERSION j = Ok o.
Proof.
  intros (path & mtime & size & volume_id & ty & format & arch & dn & dc & checksums & implant & bootable & subvariant &
          unified & addl & -> & Hu) H.
  unfold ser_image in H. destruct (validate image_cls _) as [[]|e] eqn:Hv; cbn [bind] in H; [|discriminate].
  injection H as <-.
  destruct current_version_ok as (_ & _ & _ & _ & _ & _ & Hle10).
  unfold deser_image. rewrite Hle10.
  unfold mk_image in *. destruct unified.
  - cbn -[validate image_cls]. cbn -[validate image_cls] in Hv. unfold py_bool. cbn [truthy]. rewrite Hv. reflexivity.
  - rewrite (Hu eq_refl) in *. cbn -[validate image_cls]. cbn -[validate image_cls] in Hv. unfold py_bool. cbn [truthy]. rewrite Hv. reflexivity.
Qed.

(* none of the fifteen attributes is lost or altered: stated attribute by attribute *)
Corollary image_roundtrip_fields o j o' :
  image_normal o -> ser_image o = Ok j -> deser_image VERSION j = Ok o' ->
  forall f, In f IMAGE_FIELDS -> getf o' f = getf o f.
Proof. intros Hn Hs Hd f _. rewrite (image_roundtrip o j Hn Hs) in Hd. injection Hd as <-. reflexivity. Qed.

(* non-vacuity: a unified DVD with additional variants, a > 2^32 size and two checksum types *)
Example image_roundtrip_example :
  let o := mk_image (PStr (lit "Server/x86_64/iso/dvd.iso")) (PInt 1440000000) (PInt 8589934597) (PStr (lit "Fedora-S-22"))
                    (PStr (lit "dvd")) (PStr (lit "iso")) (PStr (lit "x86_64")) (PInt 1) (PInt 1)
                    (PDict [(lit "md5", PStr (lit "cc")); (lit "sha256", PStr (lit "aa"))]) PNone (PBool true)
                    (PStr (lit "Server")) (PBool true) (PList [PStr (lit "Client")]) in
  exists j, ser_image o = Ok j /\ deser_image VERSION j = Ok o.
Proof. eexists. split; vm_compute; reflexivity. Qed.
