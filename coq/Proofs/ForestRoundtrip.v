(* C01: reading back the flat uid-keyed mapping the writer produced gives the forest that was written (any depth) *)
From PM Require Import Base.PyVal Base.Obj Model.Common Model.Variants Model.ComposeInfo
     Proofs.ManifestsProofs Proofs.PyValProofs Proofs.CommonProofs Proofs.LoadValid Proofs.StrOrder Proofs.KeySort
     Proofs.ReleaseRoundtrip Proofs.PathsRoundtrip Proofs.VariantsProofs Proofs.ImagesProofs Proofs.ForestFlat
     Gen.Tables Gen.Validators.
From Coq Require Import Lia Permutation.

(* ---- a predicate on every node of a tree *)
Fixpoint tree_all (P : vtree -> Prop) (t : vtree) : Prop :=
  match t with
  | VT f paths rel children =>
      P t /\ (fix all (cs : list (str * vtree)) : Prop :=
                match cs with [] => True | (_, c) :: cs' => tree_all P c /\ all cs' end) children
  end.

Definition forest_all (P : vtree -> Prop) (cs : list (str * vtree)) : Prop := forall k c, In (k, c) cs -> tree_all P c.

Lemma tree_all_unfold P f paths rel children :
  tree_all P (VT f paths rel children) <-> P (VT f paths rel children) /\ forest_all P children.
Proof.
  cbn [tree_all]. apply and_iff_compat_l. unfold forest_all. induction children as [|[k c] cs IH].
  - split; [intros _ k c []|intros _; exact I].
  - split.
    + intros [Hc Hr] k' c' [E|Hin]; [injection E as <- <-; exact Hc|exact (proj1 IH Hr k' c' Hin)].
    + intros H. split; [apply (H k c); left; reflexivity|]. apply IH. intros k' c' Hin. apply (H k' c'). right. exact Hin.
Qed.

Lemma tree_all_root P t : tree_all P t -> P t.
Proof. destruct t. cbn [tree_all]. intros [H _]. exact H. Qed.

(* ---- the writer succeeded, so the release of every layered-product variant was serialisable *)
Definition rel_ok (t : vtree) : Prop :=
  is_layered_variant t = true ->
  exists j, ser_release release_cls (F"release") (setf (vt_release t) (F"is_layered") (PBool true)) = Ok (F"release", j).

Lemma ser_release_section cls sec r x : ser_release cls sec r = Ok x -> fst x = sec.
Proof. unfold ser_release. intros H. apply bind_ok in H. destruct H as (u & _ & H). injection H as <-. reflexivity. Qed.

Lemma ser_children_rel_ok me cs :
  (forall k c, In (k, c) cs -> forall parent data data', ser_variant parent c data = Ok data' -> tree_all rel_ok c) ->
  forall data data1, ser_children me cs data = Ok data1 -> forest_all rel_ok cs.
Proof.
  induction cs as [|[k c] cs IH]; intros Hc data data1 H; [intros ? ? []|].
  cbn [ser_children] in H. apply bind_ok in H. destruct H as (d' & H1 & H2).
  intros k' c' [E|Hin].
  - injection E as <- <-. exact (Hc k c (or_introl eq_refl) _ _ _ H1).
  - exact (IH (fun k0 c0 Hin0 => Hc k0 c0 (or_intror Hin0)) _ _ H2 k' c' Hin).
Qed.

Lemma ser_variant_rel_ok t : forall parent data data', ser_variant parent t data = Ok data' -> tree_all rel_ok t.
Proof.
  induction t as [f paths rel children IH] using vtree_ind2. intros parent data data' H.
  rewrite ser_variant_unfold in H. cbv zeta in H.
  apply bind_ok in H. destruct H as (base1 & Hb & H). apply bind_ok in H. destruct H as (data1 & Hc & _).
  apply tree_all_unfold. split.
  - unfold rel_ok, is_layered_variant. cbn [vt_fields vt_release]. intros Hl. rewrite Hl in Hb.
    apply bind_ok in Hb. destruct Hb as ([sec j] & Hr & _). pose proof (ser_release_section _ _ _ _ Hr) as E. cbn [fst] in E. subst sec.
    exists j. exact Hr.
  - exact (ser_children_rel_ok _ children IH _ _ Hc).
Qed.

(* ---- normal form of a variant node (what the reader itself builds) *)
Definition mk_fields (i : str) (u : str) (n ty : pyval) (a : list pyval) : obj :=
  [(F"id", PStr i); (F"uid", PStr u); (F"name", n); (F"type", ty); (F"arches", PList a)].

Definition strs (l : list pyval) : list str := match strs_of l with Some a => a | None => [] end.

Definition node_normal (t : vtree) : Prop :=
  (exists i u n ty a archs, vt_fields t = mk_fields i u n ty a /\ sort_set a = a /\ strs_of a = Some archs) /\
  (if is_layered_variant t
   then exists name version short rty internal, vt_release t = mk_release name version short rty true internal
   else vt_release t = fresh_release) /\
  Forall (fun kc => getf (vt_fields (snd kc)) (F"id") = PStr (fst kc)) (vt_children t) /\
  ssorted (map fst (vt_children t)).

(* the tree with every path table replaced by what is written for it *)
Fixpoint wp (t : vtree) : vtree :=
  match t with
  | VT f paths rel cs => VT f (ser_paths_tab (strs (arches_of f)) paths) rel (map (fun kc => (fst kc, wp (snd kc))) cs)
  end.
Definition wp_list (cs : list (str * vtree)) : list (str * vtree) := map (fun kc => (fst kc, wp (snd kc))) cs.

Lemma wp_fields t : vt_fields (wp t) = vt_fields t.
Proof. destruct t; reflexivity. Qed.

Lemma tree_ctx_wp parent t : tree_ctx parent (wp t) = tree_ctx parent t.
Proof.
  destruct t as [f paths rel cs]. unfold tree_ctx. cbn [wp vt_fields vt_children].
  assert (E : map (child_ctx_entry false) (sort_keys (map (fun kc => (fst kc, wp (snd kc))) cs)) =
              map (child_ctx_entry false) (sort_keys cs)).
  { rewrite (sort_keys_map wp cs), map_map. apply map_ext. intros [k c]. unfold child_ctx_entry. cbn [fst snd]. rewrite wp_fields. reflexivity. }
  rewrite E. reflexivity.
Qed.

Lemma validate_tree_node_wp parent t : validate_tree_node parent (wp t) = validate_tree_node parent t.
Proof. unfold validate_tree_node. rewrite tree_ctx_wp. reflexivity. Qed.

(* ---- what validation under a parent establishes: UID alignment *)
Lemma valid_customs_o o :
  validate_with customs_ci (F"composeinfo.Variant") o = Ok tt ->
  custom_variant_uid o = Ok tt /\ custom_parent_arch o = Ok tt /\ custom_children o = Ok tt.
Proof.
  intros Hv. unfold validate_with, run_validators in Hv.
  destruct variant_customs_present as (H1 & H2 & H3). apply assoc_In in H1, H2, H3.
  pose proof (iterM_all _ _ Hv _ H1) as G1. pose proof (iterM_all _ _ Hv _ H2) as G2. pose proof (iterM_all _ _ Hv _ H3) as G3.
  cbn [snd run_method] in G1, G2, G3.
  repeat split.
  - change (customs_ci (F"composeinfo.Variant._validate_uid")) with (Some custom_variant_uid) in G1. exact G1.
  - change (customs_ci (F"composeinfo.Variant._validate_parent_arch")) with (Some custom_parent_arch) in G2. exact G2.
  - change (customs_ci (F"composeinfo.VariantBase._validate_variants")) with (Some custom_children) in G3. exact G3.
Qed.

Lemma child_aligned pu pa c i u n ty a :
  vt_fields c = mk_fields i u n ty a -> validate_tree_node (Some (PStr pu, pa)) c = Ok tt -> u = pu ++ c_dash :: i.
Proof.
  intros Hf Hv. unfold validate_tree_node in Hv. destruct (valid_customs_o _ Hv) as (Hu & _ & _).
  unfold tree_ctx in Hu. rewrite Hf in Hu. unfold custom_variant_uid, mk_fields in Hu. cbn in Hu.
  apply guard_ok in Hu. apply str_eqb_eq in Hu. exact Hu.
Qed.

(* ---- the written entry of a normal node, spelled out *)
Lemma rel_part_cases t :
  rel_ok t ->
  (is_layered_variant t = false /\ rel_part t = []) \/
  (is_layered_variant t = true /\
   exists j, ser_release release_cls (F"release") (setf (vt_release t) (F"is_layered") (PBool true)) = Ok (F"release", j) /\
             rel_part t = [(F"release", j)]).
Proof.
  intros H. unfold rel_part. unfold rel_ok in H. destruct (is_layered_variant t); [right|left; split; reflexivity].
  destruct (H eq_refl) as (j & Hj). split; [reflexivity|]. exists j. split; [exact Hj|]. rewrite Hj. reflexivity.
Qed.

Lemma child_ids_normal t :
  Forall (fun kc => getf (vt_fields (snd kc)) (F"id") = PStr (fst kc)) (vt_children t) -> ssorted (map fst (vt_children t)) ->
  child_ids t = map PStr (map fst (vt_children t)).
Proof.
  intros Hk Hs. unfold child_ids.
  assert (E : map (fun kv => getf (vt_fields (snd kv)) (F"id")) (vt_children t) = map PStr (map fst (vt_children t))).
  { rewrite map_map. apply map_ext_in. intros kc Hin. rewrite Forall_forall in Hk. exact (Hk kc Hin). }
  rewrite E. apply sort_set_sorted. exact Hs.
Qed.

Definition variants_part (cs : list (str * vtree)) : list (str * pyval) :=
  match cs with [] => [] | _ => [(F"variants", PList (map PStr (map fst cs)))] end.

Lemma dump_of_normal i u n ty a paths rel cs :
  let t := VT (mk_fields i u n ty a) paths rel cs in
  sort_set a = a ->
  Forall (fun kc => getf (vt_fields (snd kc)) (F"id") = PStr (fst kc)) cs -> ssorted (map fst cs) ->
  dump_of t = PDict ([(F"id", PStr i); (F"uid", PStr u); (F"name", n); (F"type", ty); (F"arches", PList a)]
                     ++ rel_part t ++ [(F"paths", ser_paths a paths)] ++ variants_part cs).
Proof.
  intros t Ha Hk Hs. unfold dump_of. cbn [vt_fields vt_paths vt_children t].
  change (arches_of (mk_fields i u n ty a)) with a. rewrite Ha.
  change (getf (mk_fields i u n ty a) (F"id")) with (PStr i). change (getf (mk_fields i u n ty a) (F"uid")) with (PStr u).
  change (getf (mk_fields i u n ty a) (F"name")) with n. change (getf (mk_fields i u n ty a) (F"type")) with ty.
  pose proof (child_ids_normal (VT (mk_fields i u n ty a) paths rel cs) Hk Hs) as Ec. cbn [vt_children] in Ec.
  unfold variants_part. destruct cs as [|c cs]; [reflexivity|]. fold t in Ec. rewrite Ec. reflexivity.
Qed.

Lemma version_not_legacy : vt_ltb VERSION (1, 0) = false.
Proof. vm_compute. reflexivity. Qed.

Lemma flat_nonempty t : (1 <= length (flat t))%nat.
Proof. destruct t as [f p r cs]. rewrite flat_unfold, app_length. cbn [length]. lia. Qed.

Lemma flat_child_le k c cs : In (k, c) cs -> (length (flat c) <= length (flat_list cs))%nat.
Proof.
  induction cs as [|[k0 c0] cs IH]; intros []; unfold flat_list; cbn [flat_map snd]; rewrite app_length.
  - injection H as <- <-. lia.
  - fold (flat_list cs). pose proof (IH H). lia.
Qed.

Definition covered (all : list (str * pyval)) (t : vtree) : Prop := assoc (uid_s t) all = Some (dump_of t).

(* the children loop of the reader, on the children of a normal node *)
Lemma deser_children_spec fuel all pu a :
  forall (cs done : list (str * vtree)),
  (forall k c, In (k, c) cs ->
     deser_variant fuel VERSION all (Some (PStr pu, PList a)) (uid_s c) = Ok (wp c) /\
     validate_tree_node (Some (PStr pu, PList a)) c = Ok tt /\
     uid_s c = pu ++ c_dash :: k /\ getf (vt_fields c) (F"id") = PStr k) ->
  ssorted (map fst done ++ map fst cs) ->
  fold_left (fun acc ck =>
     do cs0 <- acc;
     do c <- deser_variant fuel VERSION all (Some (PStr pu, PList a)) ck;
     check validate_tree_node (Some (PStr pu, PList a)) c;
     do ckey <- match getf (vt_fields c) (F"id") with PStr s => Ok s | _ => Err TypeError end;
     match assoc ckey cs0 with
     | Some _ => Err ValueError
     | None => Ok (cs0 ++ [(ckey, c)])
     end) (map (fun k : str => pu ++ c_dash :: k) (map fst cs)) (Ok done) = Ok (done ++ wp_list cs).
Proof.
  induction cs as [|[k c] cs IH]; intros done Hc Hs.
  - cbn. rewrite app_nil_r. reflexivity.
  - cbn [map fst fold_left bind].
    destruct (Hc k c (or_introl eq_refl)) as (Hd & Hv & Hu & Hi). rewrite <- Hu, Hd. cbn [bind].
    rewrite validate_tree_node_wp, Hv. cbn [bind]. rewrite wp_fields, Hi. cbn [bind].
    assert (Hnone : assoc k done = None).
    { apply assoc_None. unfold keys. intros Hin. cbn [map fst] in Hs.
      apply ssorted_nodup in Hs. apply nodup_app_inv in Hs. destruct Hs as (_ & _ & Hd3). apply (Hd3 k Hin). left. reflexivity. }
    rewrite Hnone.
    rewrite (IH (done ++ [(k, wp c)])).
    + unfold wp_list. cbn [map fst snd]. rewrite <- app_assoc. reflexivity.
    + intros k' c' Hin. apply Hc. right. exact Hin.
    + rewrite map_app. cbn [map fst]. rewrite <- app_assoc. exact Hs.
Qed.

Lemma ssorted_app_r a b : ssorted (a ++ b) -> ssorted b.
Proof. induction a as [|x a IH]; cbn [app ssorted]; [auto|]. intros [_ H]. exact (IH H). Qed.

Theorem deser_variant_spec (all : list (str * pyval)) t : forall fuel parent,
  (length (flat t) <= fuel)%nat ->
  tree_all node_normal t -> tree_all rel_ok t -> tree_all (covered all) t -> tree_valid parent t ->
  deser_variant fuel VERSION all parent (uid_s t) = Ok (wp t).
Proof.
  induction t as [f paths rel cs IH] using vtree_ind2. intros fuel parent Hfuel Hn Hr Hc Hv.
  apply tree_all_unfold in Hn, Hr, Hc. destruct Hn as [Hnode Hnc], Hr as [Hrel Hrc], Hc as [Hcov Hcc].
  apply tree_valid_unfold in Hv. destruct Hv as [Hvt Hvc].
  destruct Hnode as ((i & u & n & ty & a & archs & Hf & Hsa & Hstrs) & Hrelform & Hkeys & Hsorted).
  cbn [vt_fields vt_release vt_children] in Hf, Hrelform, Hkeys, Hsorted. subst f.
  set (t := VT (mk_fields i u n ty a) paths rel cs) in *.
  destruct fuel as [|fuel]; [pose proof (flat_nonempty t); lia|].
  assert (Eu : uid_s t = u) by reflexivity.
  pose proof (dump_of_normal i u n ty a paths rel cs Hsa Hkeys Hsorted) as Ed. fold t in Ed.
  unfold covered in Hcov. rewrite Ed in Hcov.
  cbn [deser_variant]. rewrite Hcov. cbn [of_option bind].
  remember ([(F"id", PStr i); (F"uid", PStr u); (F"name", n); (F"type", ty); (F"arches", PList a)] ++
            rel_part t ++ [(F"paths", ser_paths a paths)] ++ variants_part cs) as D eqn:HD.
  cbn [dget].
  assert (A1 : assoc (F"id") D = Some (PStr i)) by (subst D; reflexivity).
  assert (A2 : assoc (F"uid") D = Some (PStr u)) by (subst D; reflexivity).
  assert (A3 : assoc (F"name") D = Some n) by (subst D; reflexivity).
  assert (A4 : assoc (F"type") D = Some ty) by (subst D; reflexivity).
  assert (A5 : assoc (F"arches") D = Some (PList a)) by (subst D; reflexivity).
  rewrite A1, A2, A3, A4, A5. cbn [of_option bind py_list]. rewrite Hsa.
  assert (El : py_eq ty (PStr (F"layered-product")) = is_layered_variant t) by reflexivity.
  assert (Estrs : strs (arches_of (mk_fields i u n ty a)) = archs).
  { change (arches_of (mk_fields i u n ty a)) with a. unfold strs. rewrite Hstrs. reflexivity. }
  (* release, paths, variants: by cases on whether the variant is a layered product *)
  assert (Hrelread : exists D', D = [(F"id", PStr i); (F"uid", PStr u); (F"name", n); (F"type", ty); (F"arches", PList a)] ++ D' ++
                                    [(F"paths", ser_paths a paths)] ++ variants_part cs /\
                                (D' = [] \/ exists j, D' = [(F"release", j)]) /\
                                (if py_eq ty (PStr (F"layered-product")) then deser_release VERSION (PDict D) else Ok fresh_release) = Ok rel).
  { rewrite El. destruct (rel_part_cases t Hrel) as [(Hl & Hrp)|(Hl & j & Hj & Hrp)]; rewrite Hl in *; rewrite Hrp in HD.
    - exists []. split; [exact HD|]. split; [left; reflexivity|]. rewrite Hrelform. reflexivity.
    - exists [(F"release", j)]. split; [exact HD|]. split; [right; exists j; reflexivity|].
      destruct Hrelform as (name & version & short & rty & internal & Hrf).
      change (vt_release t) with rel in Hj. rewrite Hrf in Hj. rewrite Hrf.
      apply (release_roundtrip name version short rty true internal (F"release") j D); [exact Hj|].
      subst D. reflexivity. }
  destruct Hrelread as (D' & HD' & HD'cases & Hrd). rewrite Hrd. cbn [bind].
  assert (A6 : assoc (F"paths") D = Some (ser_paths a paths)).
  { rewrite HD'. destruct HD'cases as [->|(j & ->)]; reflexivity. }
  assert (A7 : assoc (F"variants") D = match cs with [] => None | _ => Some (PList (map PStr (map fst cs))) end).
  { rewrite HD'. destruct HD'cases as [->|(j & ->)]; destruct cs; reflexivity. }
  rewrite A6. cbn [of_option bind].
  rewrite (paths_roundtrip a archs paths) by (rewrite Hsa; exact Hstrs). cbn [bind].
  assert (Hwp : wp t = VT (mk_fields i u n ty a) (ser_paths_tab archs paths) rel (wp_list cs)).
  { unfold t. cbn [wp]. rewrite Estrs. reflexivity. }
  destruct cs as [|c0 cs0].
  - rewrite A7, version_not_legacy. cbn [bind fold_left].
    change (VT _ (ser_paths_tab archs paths) rel []) with (VT (mk_fields i u n ty a) (ser_paths_tab archs paths) rel (wp_list [])).
    rewrite <- Hwp, validate_tree_node_wp, Hvt. reflexivity.
  - rewrite A7. set (cs := c0 :: cs0) in *. cbn [py_list bind].
    rewrite (sort_list_sorted _ Hsorted), map_map.
    rewrite (map_ext (fun x => fmt_s (PStr u) ++ c_dash :: fmt_s (PStr x)) (fun k => u ++ c_dash :: k)) by reflexivity.
    rewrite (deser_children_spec fuel all u a cs []).
    + cbn [bind app].
      change (VT _ (ser_paths_tab archs paths) rel (wp_list cs)) with (VT (mk_fields i u n ty a) (ser_paths_tab archs paths) rel (wp_list cs)).
      rewrite <- Hwp, validate_tree_node_wp, Hvt. reflexivity.
    + intros k c Hin.
      pose proof (Hvc k c Hin) as Hvc1. change (tree_valid (Some (PStr u, PList a)) c) in Hvc1.
      assert (Hroot : validate_tree_node (Some (PStr u, PList a)) c = Ok tt).
      { destruct c. apply tree_valid_unfold in Hvc1. exact (proj1 Hvc1). }
      rewrite Forall_forall in Hkeys. pose proof (Hkeys (k, c) Hin) as Hid. cbn [fst snd] in Hid.
      pose proof (tree_all_root _ _ (Hnc k c Hin)) as ((i' & u' & n' & ty' & a' & archs' & Hf' & _ & _) & _).
      assert (Ei : i' = k). { rewrite Hf' in Hid. cbn in Hid. injection Hid as ->. reflexivity. }
      subst i'. pose proof (child_aligned u (PList a) c k u' n' ty' a' Hf' Hroot) as Eu'.
      assert (Euc : uid_s c = u ++ c_dash :: k). { unfold uid_s. rewrite Hf'. cbn. exact Eu'. }
      split; [|split; [exact Hroot|split; [exact Euc|exact Hid]]].
      apply IH with (k := k); [exact Hin| |exact (Hnc k c Hin)|exact (Hrc k c Hin)|exact (Hcc k c Hin)|exact Hvc1].
      unfold t in Hfuel. rewrite flat_unfold, app_length in Hfuel. cbn [length] in Hfuel.
      pose proof (flat_child_le k c cs Hin). lia.
    + cbn [map app]. exact Hsorted.
Qed.

(* ---- alignment of every parent/child pair, from the validators the writer ran *)
Definition aligned_node (t : vtree) : Prop := forall k c, In (k, c) (vt_children t) -> uid_s c = uid_s t ++ c_dash :: k.

Lemma tree_aligned t : forall parent, tree_all node_normal t -> tree_valid parent t -> tree_all aligned_node t.
Proof.
  induction t as [f paths rel cs IH] using vtree_ind2. intros parent Hn Hv.
  apply tree_all_unfold in Hn. destruct Hn as [Hnode Hnc]. apply tree_valid_unfold in Hv. destruct Hv as [_ Hvc].
  destruct Hnode as ((i & u & n & ty & a & archs & Hf & _ & _) & _ & Hkeys & _). cbn [vt_fields vt_children] in Hf, Hkeys. subst f.
  apply tree_all_unfold. split.
  - intros k c Hin. cbn [vt_children] in Hin.
    pose proof (Hvc k c Hin) as Hvc1. change (tree_valid (Some (PStr u, PList a)) c) in Hvc1.
    assert (Hroot : validate_tree_node (Some (PStr u, PList a)) c = Ok tt).
    { destruct c. apply tree_valid_unfold in Hvc1. exact (proj1 Hvc1). }
    rewrite Forall_forall in Hkeys. pose proof (Hkeys (k, c) Hin) as Hid. cbn [fst snd] in Hid.
    pose proof (tree_all_root _ _ (Hnc k c Hin)) as ((i' & u' & n' & ty' & a' & archs' & Hf' & _ & _) & _).
    assert (Ei : i' = k). { rewrite Hf' in Hid. cbn in Hid. injection Hid as ->. reflexivity. }
    subst i'. pose proof (child_aligned u (PList a) c k u' n' ty' a' Hf' Hroot) as Eu'.
    unfold uid_s at 1. rewrite Hf'. cbn. exact Eu'.
  - intros k c Hin. exact (IH k c Hin _ (Hnc k c Hin) (Hvc k c Hin)).
Qed.

(* ---- every node's entry can be looked up in a mapping that contains the writer's output *)
Lemma assoc_nodup_in {A} k (v : A) l : NoDup (keys l) -> In (k, v) l -> assoc k l = Some v.
Proof.
  induction l as [|[k0 v0] l IH]; intros Hn []; cbn [assoc].
  - injection H as -> ->. rewrite str_eqb_refl. reflexivity.
  - cbn [keys map fst] in Hn. inversion Hn as [|? ? Hx Hr]; subst.
    destruct (str_eqb_spec k k0) as [->|_]; [|exact (IH Hr H)].
    exfalso. apply Hx. change (In k0 (keys l)). unfold keys. apply in_map_iff. exists (k0, v). split; [reflexivity|exact H].
Qed.

Lemma covered_incl all t : NoDup (keys all) -> incl (flat t) all -> tree_all (covered all) t.
Proof.
  intros Hn. induction t as [f paths rel cs IH] using vtree_ind2. intros Hi. rewrite flat_unfold in Hi.
  apply tree_all_unfold. split.
  - unfold covered. apply assoc_nodup_in; [exact Hn|]. apply Hi. apply in_or_app. right. left. reflexivity.
  - intros k c Hin. apply (IH k c Hin). intros x Hx. apply Hi. apply in_or_app. left.
    unfold flat_list. apply in_flat_map. exists (k, c). split; [exact Hin|exact Hx].
Qed.

(* ---- the child UIDs the reader collects from the "variants" lists *)
Lemma dump_of_lookup t :
  node_normal t -> rel_ok t ->
  exists D u, dump_of t = PDict D /\ uid_s t = u /\ assoc (F"uid") D = Some (PStr u) /\
              assoc (F"variants") D = match vt_children t with [] => None | cs => Some (PList (map PStr (map fst cs))) end.
Proof.
  intros ((i & u & n & ty & a & archs & Hf & Hsa & _) & _ & Hkeys & Hsorted) Hrel. destruct t as [f paths rel cs].
  cbn [vt_fields vt_children] in *. subst f.
  pose proof (dump_of_normal i u n ty a paths rel cs Hsa Hkeys Hsorted) as Ed. cbv zeta in Ed.
  eexists. exists u. split; [exact Ed|]. split; [reflexivity|]. split; [reflexivity|].
  destruct (rel_part_cases _ Hrel) as [(_ & ->)|(_ & j & _ & ->)]; destruct cs; reflexivity.
Qed.

Definition cu_step (acc : result (list str)) (kv : str * pyval) : result (list str) :=
  do s <- acc;
  do vs <- dget_default (snd kv) (F"variants") (PList []);
  do l <- py_list vs;
  do u <- dget (snd kv) (F"uid");
  Ok (s ++ map (fun i => fmt_s u ++ c_dash :: fmt_s i) l).

Definition child_uid_list (t : vtree) : list str := map (fun kc => uid_s (snd kc)) (vt_children t).

Fixpoint cul_tree (t : vtree) : list str :=
  match t with
  | VT f p r cs =>
      (fix go (cs : list (str * vtree)) : list str := match cs with [] => [] | (_, c) :: cs' => cul_tree c ++ go cs' end) cs
      ++ child_uid_list t
  end.
Definition cul_list (cs : list (str * vtree)) : list str := flat_map (fun kc => cul_tree (snd kc)) cs.

Lemma cul_unfold f p r cs : cul_tree (VT f p r cs) = cul_list cs ++ child_uid_list (VT f p r cs).
Proof.
  cbn [cul_tree]. f_equal. unfold cul_list. induction cs as [|[k c] cs IH]; cbn [flat_map snd]; [reflexivity|]. rewrite IH. reflexivity.
Qed.

Lemma cu_fold_list (cs : list (str * vtree)) :
  (forall k c, In (k, c) cs -> forall s, fold_left cu_step (flat c) (Ok s) = Ok (s ++ cul_tree c)) ->
  forall s, fold_left cu_step (flat_list cs) (Ok s) = Ok (s ++ cul_list cs).
Proof.
  induction cs as [|[k c] cs IH]; intros Hc s.
  - cbn. rewrite app_nil_r. reflexivity.
  - unfold flat_list, cul_list. cbn [flat_map snd]. rewrite fold_left_app, (Hc k c (or_introl eq_refl)).
    fold (flat_list cs). rewrite (IH (fun k' c' Hin => Hc k' c' (or_intror Hin))). fold (cul_list cs). rewrite app_assoc. reflexivity.
Qed.

Lemma cu_fold_tree t :
  tree_all node_normal t -> tree_all rel_ok t -> tree_all aligned_node t ->
  forall s, fold_left cu_step (flat t) (Ok s) = Ok (s ++ cul_tree t).
Proof.
  induction t as [f paths rel cs IH] using vtree_ind2. intros Hn Hr Ha s.
  apply tree_all_unfold in Hn, Hr, Ha. destruct Hn as [Hnode Hnc], Hr as [Hrel Hrc], Ha as [Hal Hac].
  rewrite flat_unfold, fold_left_app, cul_unfold.
  rewrite (cu_fold_list cs) by (intros k c Hin; apply (IH k c Hin); [exact (Hnc k c Hin)|exact (Hrc k c Hin)|exact (Hac k c Hin)]).
  set (t := VT f paths rel cs) in *.
  destruct (dump_of_lookup t Hnode Hrel) as (D & u & Ed & Eu & A2 & A7).
  cbn [fold_left]. unfold cu_step at 1. cbn [bind snd]. rewrite Ed. cbn [dget_default dget]. rewrite A2, A7. cbn [of_option].
  unfold child_uid_list. cbn [vt_children t].
  destruct cs as [|c0 cs0]; [cbn [dflt py_list bind map]; rewrite !app_nil_r; reflexivity|].
  cbv iota. cbn [dflt py_list bind]. rewrite <- app_assoc. apply f_equal. apply f_equal. apply f_equal.
  rewrite !map_map. apply map_ext_in. intros [k c] Hin. cbn [fst snd fmt_s]. rewrite (Hal k c Hin), Eu. reflexivity.
Qed.

Lemma in_cul_tree t x : In x (cul_tree t) <-> In x (forest_uids (vt_children t)).
Proof.
  induction t as [f paths rel cs IH] using vtree_ind2. rewrite cul_unfold. cbn [vt_children].
  unfold forest_uids, flat_list, cul_list, child_uid_list. cbn [vt_children].
  rewrite in_app_iff, in_flat_map, in_map_iff, in_map_iff. split.
  - intros [([k c] & Hin & Hx)|([k c] & Hx & Hin)]; cbn [snd] in *.
    + apply (IH k c Hin) in Hx. unfold forest_uids in Hx. apply in_map_iff in Hx. destruct Hx as (e & He & Hin2).
      exists e. split; [exact He|]. apply in_flat_map. exists (k, c). split; [exact Hin|]. cbn [snd].
      destruct c as [f' p' r' cs']. rewrite flat_unfold. apply in_or_app. left. exact Hin2.
    + exists (uid_s c, dump_of c). split; [exact Hx|]. apply in_flat_map. exists (k, c). split; [exact Hin|]. cbn [snd].
      destruct c as [f' p' r' cs']. rewrite flat_unfold. apply in_or_app. right. left. reflexivity.
  - intros (e & He & Hin). apply in_flat_map in Hin. destruct Hin as ([k c] & Hin & Hx). cbn [snd] in Hx.
    destruct c as [f' p' r' cs']. rewrite flat_unfold in Hx. apply in_app_or in Hx. destruct Hx as [Hx|[Hx|[]]].
    + left. exists (k, VT f' p' r' cs'). split; [exact Hin|]. cbn [snd]. apply (IH k _ Hin). cbn [vt_children].
      unfold forest_uids. apply in_map_iff. exists e. split; [exact He|exact Hx].
    + right. exists (k, VT f' p' r' cs'). split; [|exact Hin]. cbn [snd]. subst e. exact He.
Qed.

(* ---- which keys of the mapping are top-level variants *)
Lemma filter_none {A} (p : A -> bool) l : (forall x, In x l -> p x = false) -> filter p l = [].
Proof. induction l as [|x l IH]; intros H; [reflexivity|]. cbn [filter]. rewrite (H x (or_introl eq_refl)). apply IH. intros y Hy. apply H. right. exact Hy. Qed.

Lemma uids_split t : uids t = forest_uids (vt_children t) ++ [uid_s t].
Proof. destruct t. apply uids_unfold. Qed.

Lemma filter_roots (D : list str) (l : list (str * vtree)) :
  (forall k c x, In (k, c) l -> In x (forest_uids (vt_children c)) -> mem_str x D = true) ->
  (forall k c, In (k, c) l -> mem_str (uid_s c) D = false) ->
  filter (fun k => negb (mem_str k D)) (forest_uids l) = map (fun kc => uid_s (snd kc)) l.
Proof.
  induction l as [|[k c] l IH]; intros H1 H2; [reflexivity|].
  rewrite forest_uids_cons, filter_app, uids_split, filter_app. cbn [map snd].
  rewrite filter_none by (intros x Hx; rewrite (H1 k c x (or_introl eq_refl) Hx); reflexivity).
  cbn [filter app]. rewrite (H2 k c (or_introl eq_refl)). cbn [negb app]. f_equal.
  apply IH; [intros k' c' x Hin; apply (H1 k' c' x); right; exact Hin|intros k' c' Hin; apply (H2 k' c'); right; exact Hin].
Qed.

Lemma nodup_flat_map_in {A B} (g : A -> list B) l a : NoDup (flat_map g l) -> In a l -> NoDup (g a).
Proof.
  induction l as [|y l IH]; intros Hn []; cbn [flat_map] in Hn; apply nodup_app_inv in Hn; destruct Hn as (H1 & H2 & _).
  - subst. exact H1.
  - exact (IH H2 H).
Qed.

Lemma nodup_flat_map_inj {A B} (g : A -> list B) l a b x :
  NoDup (flat_map g l) -> In a l -> In b l -> In x (g a) -> In x (g b) -> a = b.
Proof.
  induction l as [|y l IH]; intros Hn Ha Hb Hxa Hxb; [destruct Ha|].
  cbn [flat_map] in Hn. apply nodup_app_inv in Hn. destruct Hn as (_ & H2 & H3).
  destruct Ha as [->|Ha], Hb as [->|Hb].
  - reflexivity.
  - exfalso. apply (H3 x Hxa). apply in_flat_map. exists b. split; assumption.
  - exfalso. apply (H3 x Hxb). apply in_flat_map. exists a. split; assumption.
  - exact (IH H2 Ha Hb Hxa Hxb).
Qed.

Lemma forest_uids_flat_map l : forest_uids l = flat_map (fun kc => uids (snd kc)) l.
Proof. induction l as [|[k c] l IH]; [reflexivity|]. rewrite forest_uids_cons, IH. reflexivity. Qed.

Lemma in_cul_list l x : In x (cul_list l) <-> exists k c, In (k, c) l /\ In x (forest_uids (vt_children c)).
Proof.
  unfold cul_list. rewrite in_flat_map. split.
  - intros ([k c] & Hin & Hx). exists k, c. split; [exact Hin|]. apply in_cul_tree. exact Hx.
  - intros (k & c & Hin & Hx). exists (k, c). split; [exact Hin|]. apply in_cul_tree. exact Hx.
Qed.

(* ---- the top-level loop of the reader *)
Lemma deser_tops_spec fuel all :
  forall (vs done : list (str * vtree)),
  (forall k c, In (k, c) vs ->
     deser_variant fuel VERSION all None (uid_s c) = Ok (wp c) /\ validate_tree_node None c = Ok tt /\
     getf (vt_fields c) (F"id") = PStr k) ->
  NoDup (map fst done ++ map fst vs) ->
  fold_left (fun acc k =>
     do vs0 <- acc;
     do t <- deser_variant fuel VERSION all None k;
     check validate_tree_node None t;
     do key <- match getf (vt_fields t) (F"id") with PStr s => Ok s | _ => Err TypeError end;
     match assoc key vs0 with
     | Some _ => Err ValueError
     | None => Ok (vs0 ++ [(key, t)])
     end) (map (fun kc : str * vtree => uid_s (snd kc)) vs) (Ok done) = Ok (done ++ wp_list vs).
Proof.
  induction vs as [|[k c] vs IH]; intros done Hc Hs.
  - cbn. rewrite app_nil_r. reflexivity.
  - cbn [map fst snd fold_left bind].
    destruct (Hc k c (or_introl eq_refl)) as (Hd & Hv & Hi). rewrite Hd. cbn [bind].
    rewrite validate_tree_node_wp, Hv. cbn [bind]. rewrite wp_fields, Hi. cbn [bind].
    assert (Hnone : assoc k done = None).
    { apply assoc_None. unfold keys. intros Hin. cbn [map fst] in Hs.
      apply nodup_app_inv in Hs. destruct Hs as (_ & _ & Hd3). apply (Hd3 k Hin). left. reflexivity. }
    rewrite Hnone.
    rewrite (IH (done ++ [(k, wp c)])).
    + unfold wp_list. cbn [map fst snd]. rewrite <- app_assoc. reflexivity.
    + intros k' c' Hin. apply Hc. right. exact Hin.
    + rewrite map_app. cbn [map fst]. rewrite <- app_assoc. exact Hs.
Qed.

Lemma fold_ser_rel_ok cs : forall data d,
  fold_left (fun acc kv => do d <- acc; ser_variant None (snd kv) d) cs (Ok data) = Ok d -> forest_all rel_ok cs.
Proof.
  induction cs as [|[k c] cs IH]; intros data d H; [intros ? ? []|].
  cbn [fold_left bind snd] in H.
  destruct (ser_variant None c data) as [d'|e] eqn:E1.
  2:{ exfalso. clear -H. induction cs as [|x cs IHc]; cbn in H; [discriminate|exact (IHc H)]. }
  intros k' c' [E|Hin]; [injection E as <- <-; exact (ser_variant_rel_ok _ _ _ _ E1)|exact (IH _ _ H k' c' Hin)].
Qed.

(* ---- the forest: normal form of the top level (what the reader builds: keyed by id, ordered by UID) *)
Definition forest_normal (vs : list (str * vtree)) : Prop :=
  forest_all node_normal vs /\
  Forall (fun kc => getf (vt_fields (snd kc)) (F"id") = PStr (fst kc)) vs /\
  NoDup (map fst vs) /\
  ssorted (map (fun kc => uid_s (snd kc)) vs).

Lemma flat_list_incl k c l : In (k, c) l -> incl (flat c) (flat_list l).
Proof. intros Hin x Hx. unfold flat_list. apply in_flat_map. exists (k, c). split; [exact Hin|exact Hx]. Qed.

Theorem forest_roundtrip vs d payload :
  forest_normal vs -> NoDup (forest_uids vs) ->
  ser_variants vs = Ok (PDict d) -> dget payload (F"variants") = Ok (PDict d) ->
  deser_variants VERSION payload = Ok (wp_list vs).
Proof.
  intros (Hn & Hids & Hkeys & Huid) Hnd Hser Hget.
  set (vs' := sort_keys vs).
  assert (Hperm : Permutation vs' vs) by apply sort_keys_is_perm.
  assert (Hin' : forall k c, In (k, c) vs' -> In (k, c) vs) by (intros k c H; exact (Permutation_in _ Hperm H)).
  assert (Hnd' : NoDup (forest_uids vs')).
  { eapply Permutation_NoDup; [|exact Hnd]. rewrite !forest_uids_flat_map. apply Permutation_flat_map. symmetry. exact Hperm. }
  destruct (ser_variants_spec vs d Hser Hnd') as (Ed & Hvalid & _). fold vs' in Ed, Hvalid.
  assert (Hrel : forest_all rel_ok vs').
  { unfold ser_variants in Hser. apply bind_ok in Hser. destruct Hser as (u & _ & Hser). apply bind_ok in Hser.
    destruct Hser as (d0 & Hf & _). exact (fold_ser_rel_ok _ _ _ Hf). }
  assert (Hn' : forest_all node_normal vs') by (intros k c H; exact (Hn k c (Hin' k c H))).
  assert (Hal : forest_all aligned_node vs') by (intros k c H; exact (tree_aligned c None (Hn' k c H) (Hvalid k c H))).
  assert (Hkd : NoDup (keys d)) by (subst d; exact Hnd').
  unfold deser_variants. rewrite Hget. cbn [bind].
  (* the child UIDs *)
  change (fold_left _ d (Ok [])) with (fold_left cu_step d (Ok [])).
  rewrite Ed at 1.
  rewrite (cu_fold_list vs') by (intros k c H s; apply cu_fold_tree; [exact (Hn' k c H)|exact (Hrel k c H)|exact (Hal k c H)]).
  cbn [bind app].
  (* the top-level keys *)
  rewrite (filter_ext _ (fun k => negb (mem_str k (cul_list vs')))) by (intros k; rewrite version_not_legacy; reflexivity).
  replace (map fst d) with (forest_uids vs') by (subst d; reflexivity).
  rewrite (filter_roots (cul_list vs') vs').
  2:{ intros k c x H Hx. apply mem_str_In. apply in_cul_list. exists k, c. split; assumption. }
  2:{ intros k c H. destruct (mem_str (uid_s c) (cul_list vs')) eqn:E; [|reflexivity]. exfalso.
      apply mem_str_In in E. apply in_cul_list in E. destruct E as (k' & c' & H' & Hx).
      rewrite forest_uids_flat_map in Hnd'.
      assert (Hx1 : In (uid_s c) (uids c)) by (rewrite uids_split; apply in_or_app; right; left; reflexivity).
      assert (Hx2 : In (uid_s c) (uids c')) by (rewrite uids_split; apply in_or_app; left; exact Hx).
      pose proof (nodup_flat_map_inj (fun kc => uids (snd kc)) vs' (k, c) (k', c') (uid_s c) Hnd' H H' Hx1 Hx2) as E.
      injection E as <- <-.
      pose proof (nodup_flat_map_in (fun kc => uids (snd kc)) vs' (k, c) Hnd' H) as Hn1. cbn [snd] in Hn1.
      rewrite uids_split in Hn1. apply nodup_app_inv in Hn1. destruct Hn1 as (_ & _ & Hd3). apply (Hd3 (uid_s c) Hx). left. reflexivity. }
  (* sorted by UID *)
  set (L := map (fun k : str => (k, tt)) (map (fun kc : str * vtree => uid_s (snd kc)) vs)).
  assert (Esort : sort_keys (map (fun k : str => (k, tt)) (map (fun kc : str * vtree => uid_s (snd kc)) vs')) = L).
  { assert (EL : map fst L = map (fun kc : str * vtree => uid_s (snd kc)) vs).
    { unfold L. rewrite map_map. cbn [fst]. apply map_id. }
    rewrite <- (sort_keys_sorted L) by (rewrite EL; exact Huid).
    symmetry. apply sort_keys_perm.
    - unfold L. apply Permutation_map. apply Permutation_map. symmetry. exact Hperm.
    - rewrite EL. apply ssorted_nodup. exact Huid. }
  rewrite Esort. unfold L. rewrite map_map. cbn [fst]. rewrite map_id.
  (* every top-level variant is read back *)
  rewrite (deser_tops_spec (S (length d)) d vs []); [reflexivity| |cbn [map app]; exact Hkeys].
  intros k c H.
  assert (H' : In (k, c) vs') by (exact (Permutation_in _ (Permutation_sym Hperm) H)).
  assert (Hroot : validate_tree_node None c = Ok tt).
  { pose proof (Hvalid k c H') as Hv. destruct c. apply tree_valid_unfold in Hv. exact (proj1 Hv). }
  rewrite Forall_forall in Hids. pose proof (Hids (k, c) H) as Hid. cbn [fst snd] in Hid.
  split; [|split; [exact Hroot|exact Hid]].
  assert (Hincl : incl (flat c) d) by (subst d; exact (flat_list_incl k c vs' H')).
  apply deser_variant_spec; [|exact (Hn' k c H')|exact (Hrel k c H')|exact (covered_incl d c Hkd Hincl)|exact (Hvalid k c H')].
  pose proof (flat_child_le k c vs' H') as Hlen. rewrite <- Ed in Hlen. lia.
Qed.
