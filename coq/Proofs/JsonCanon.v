(* C08: the printed JSON depends on the content of every mapping, not on its iteration order *)
From PM Require Import Base.PyVal Base.Obj Base.Json Proofs.StrOrder.
From Coq Require Import Permutation.

(* recursively key-sorted form: two values with the same canon have the same content *)
Fixpoint canon (v : pyval) : pyval :=
  match v with
  | PList l => PList ((fix go (l : list pyval) : list pyval := match l with [] => [] | x :: l' => canon x :: go l' end) l)
  | PDict kv => PDict ((fix go (kv : list (str * pyval)) : list (str * pyval) :=
                          match kv with [] => [] | (k, x) :: kv' => insert_kv k (canon x) (go kv') end) kv)
  | _ => v
  end.

Fixpoint nodup_keys (v : pyval) : Prop :=
  match v with
  | PList l => (fix go (l : list pyval) : Prop := match l with [] => True | x :: l' => nodup_keys x /\ go l' end) l
  | PDict kv => NoDup (map fst kv) /\
                (fix go (kv : list (str * pyval)) : Prop := match kv with [] => True | (_, x) :: kv' => nodup_keys x /\ go kv' end) kv
  | _ => True
  end.

Definition entry (lvl : nat) (p : str * pyval) : str * pyval :=
  (fst p, PStr (json_string (fst p) ++ lit ": " ++ print_json_at (S lvl) (snd p))).

Definition render (lvl : nat) (entries : list (str * pyval)) : str :=
  match entries with
  | [] => lit "{}"
  | (_, e) :: es =>
      let txt v := match v with PStr s => s | _ => [] end in
      lit "{" ++ [c_nl] ++ indent (S lvl) ++ txt e ++
      flat_map (fun ke => lit "," ++ [c_nl] ++ indent (S lvl) ++ txt (snd ke)) es ++
      [c_nl] ++ indent lvl ++ lit "}"
  end.

Fixpoint tail_print (lvl : nat) (l : list pyval) : str :=
  match l with
  | [] => []
  | y :: l' => lit "," ++ [c_nl] ++ indent (S lvl) ++ print_json_at (S lvl) y ++ tail_print lvl l'
  end.

Lemma print_list lvl x l :
  print_json_at lvl (PList (x :: l)) =
  lit "[" ++ [c_nl] ++ indent (S lvl) ++ print_json_at (S lvl) x ++ tail_print lvl l ++ [c_nl] ++ indent lvl ++ lit "]".
Proof.
  cbn [print_json_at]. do 4 f_equal. f_equal. induction l as [|y l IH]; [reflexivity|]. cbn [tail_print]. rewrite IH. reflexivity.
Qed.

Lemma canon_list l : canon (PList l) = PList (map canon l).
Proof. reflexivity. Qed.

Lemma print_dict lvl kv : print_json_at lvl (PDict kv) = render lvl (sort_kv (map (entry lvl) kv)).
Proof.
  cbn [print_json_at]. unfold render.
  match goal with |- match ?a with _ => _ end = match ?b with _ => _ end => assert (a = b) as -> end; [|reflexivity].
  induction kv as [|[k x] kv IH]; [reflexivity|]. cbn [map sort_kv entry fst snd]. rewrite IH. reflexivity.
Qed.

Lemma canon_dict kv : canon (PDict kv) = PDict (sort_kv (map (fun p => (fst p, canon (snd p))) kv)).
Proof.
  cbn [canon]. f_equal. induction kv as [|[k x] kv IH]; [reflexivity|]. cbn [map sort_kv fst snd]. rewrite IH. reflexivity.
Qed.

Lemma keys_insert_kv k v l : Permutation (map fst (insert_kv k v l)) (k :: map fst l).
Proof. apply (Permutation_map fst (insert_kv_perm k v l)). Qed.

Lemma map_fst_entry lvl kv : map fst (map (entry lvl) kv) = map fst kv.
Proof. rewrite map_map. reflexivity. Qed.

Theorem print_json_canon v : nodup_keys v -> forall lvl, print_json_at lvl v = print_json_at lvl (canon v).
Proof.
  induction v as [| | | | |l IH|kv IH] using pyval_ind'; intros Hnd lvl; try reflexivity.
  - (* lists *)
    destruct l as [|x l]; [reflexivity|]. rewrite canon_list. cbn [map]. rewrite !print_list.
    cbn [nodup_keys] in Hnd. destruct Hnd as [Hx Hl]. inversion IH as [|? ? IHx IHl]; subst.
    rewrite (IHx Hx (S lvl)). do 4 f_equal. f_equal.
    clear IHx Hx IH. induction l as [|y l IHll]; [reflexivity|].
    destruct Hl as [Hy Hl]. inversion IHl as [|? ? IHy IHl']; subst.
    cbn [map tail_print]. rewrite (IHy Hy (S lvl)), (IHll Hl IHl'). reflexivity.
  - (* dicts *)
    rewrite canon_dict, !print_dict. f_equal.
    cbn [nodup_keys] in Hnd. destruct Hnd as [Hk Hv].
    set (g := fun p : str * pyval => (fst p, canon (snd p))).
    assert (Hmap : map (entry lvl) (map g kv) = map (entry lvl) kv).
    { rewrite map_map. clear Hk. induction kv as [|[k x] kv IHkv]; [reflexivity|].
      destruct Hv as [Hx Hv]. inversion IH as [|? ? IHx IHl]; subst. cbn [map]. rewrite (IHkv IHl Hv). f_equal.
      unfold entry, g. cbn [fst snd]. cbn [snd] in IHx. rewrite <- (IHx Hx (S lvl)). reflexivity. }
    rewrite <- Hmap.
    apply sort_kv_perm.
    + apply Permutation_map. apply Permutation_sym. apply sort_kv_is_perm.
    + rewrite map_fst_entry. unfold g. rewrite map_map. cbn [fst]. exact Hk.
Qed.

(* same content => same bytes *)
Corollary print_json_same_content a b :
  nodup_keys a -> nodup_keys b -> canon a = canon b -> print_json a = print_json b.
Proof.
  intros Ha Hb H. unfold print_json. rewrite (print_json_canon a Ha 0), (print_json_canon b Hb 0), H. reflexivity.
Qed.

(* any reordering of a mapping's entries is the same content *)
Lemma canon_perm kv kv' : Permutation kv kv' -> NoDup (map fst kv) -> canon (PDict kv) = canon (PDict kv').
Proof.
  intros HP Hnd. rewrite !canon_dict. f_equal. apply sort_kv_perm.
  - apply Permutation_map. exact HP.
  - rewrite map_map. cbn [fst]. exact Hnd.
Qed.

(* printed object keys are in sorted order with 4-space indentation: non-vacuity example *)
Example print_json_example :
  print_json (PDict [(lit "b", PInt 1); (lit "a", PList [PNone; PBool true])]) =
  lit "{" ++ [c_nl] ++ lit "    ""a"": [" ++ [c_nl] ++ lit "        null," ++ [c_nl] ++ lit "        true" ++ [c_nl] ++
  lit "    ]," ++ [c_nl] ++ lit "    ""b"": 1" ++ [c_nl] ++ lit "}".
Proof. vm_compute. reflexivity. Qed.
