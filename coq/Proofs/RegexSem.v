(* Declarative semantics of the regex fragment and its agreement with the
   backtracking matcher [m] (soundness; completeness for acceptance). *)
From PM Require Import Base.Regex.
Open Scope nat_scope.

(* [mt r pos u rest]: r matches exactly the prefix u of (u ++ rest), starting at index pos *)
Inductive mt : re -> nat -> str -> str -> Prop :=
| mt_eps pos rest : mt Eps pos [] rest
| mt_cls cs x pos rest : cs_mem x cs = true -> mt (Cls cs) pos [x] rest
| mt_cat a b pos u1 u2 rest :
    mt a pos u1 (u2 ++ rest) -> mt b (pos + length u1) u2 rest -> mt (Cat a b) pos (u1 ++ u2) rest
| mt_altl a b pos u rest : mt a pos u rest -> mt (Alt a b) pos u rest
| mt_altr a b pos u rest : mt b pos u rest -> mt (Alt a b) pos u rest
| mt_star0 a pos rest : mt (Star a) pos [] rest
| mt_star1 a pos u1 u2 rest :
    u1 <> [] -> mt a pos u1 (u2 ++ rest) -> mt (Star a) (pos + length u1) u2 rest ->
    mt (Star a) pos (u1 ++ u2) rest
| mt_bol rest : mt Bol 0 [] rest
| mt_eol pos rest : rest = [] \/ rest = [10%N] -> mt Eol pos [] rest
| mt_grp n a pos u rest : mt a pos u rest -> mt (Grp n a) pos u rest.

Definition sound_body (body : str -> nat -> caps -> kont -> option caps) (P : nat -> str -> str -> Prop) : Prop :=
  forall s pos c k res, body s pos c k = Some res ->
    exists u rest c', s = u ++ rest /\ P pos u rest /\ k rest (pos + length u) c' = Some res.

Lemma star_m_sound body a :
  sound_body body (mt a) ->
  forall fuel, sound_body (star_m body fuel) (mt (Star a)).
Proof.
  intros Hb fuel. induction fuel as [|f IH]; intros s pos c k res H; cbn [star_m] in H.
  - exists [], s, c. rewrite Nat.add_0_r. repeat split; [constructor|exact H].
  - destruct (body s pos c _) as [r|] eqn:E.
    + injection H as ->. apply Hb in E. destruct E as (u1 & rest1 & c1 & -> & Hm1 & Hk).
      destruct (Nat.ltb_spec (length rest1) (length (u1 ++ rest1))) as [Hlt|Hge]; [|discriminate].
      apply IH in Hk. destruct Hk as (u2 & rest & c2 & -> & Hm2 & Hk).
      exists (u1 ++ u2), rest, c2. rewrite app_assoc. split; [reflexivity|]. split.
      * apply mt_star1; [destruct u1; [cbn in Hlt; lia|discriminate]|exact Hm1|exact Hm2].
      * rewrite app_length, Nat.add_assoc. exact Hk.
    + exists [], s, c. rewrite Nat.add_0_r. repeat split; [constructor|exact H].
Qed.

Lemma m_sound r : sound_body (m r) (mt r).
Proof.
  induction r as [|cs|a IHa b IHb|a IHa b IHb|a IHa| | |n a IHa|]; intros s pos c k res H; cbn [m] in H.
  - exists [], s, c. rewrite Nat.add_0_r. repeat split; [constructor|exact H].
  - destruct s as [|x s]; [discriminate|]. destruct (cs_mem x cs) eqn:E; [|discriminate].
    exists [x], s, c. cbn [length]. rewrite Nat.add_1_r. repeat split; [constructor; exact E|exact H].
  - apply IHa in H. destruct H as (u1 & rest1 & c1 & -> & Hm1 & Hk).
    apply IHb in Hk. destruct Hk as (u2 & rest & c2 & -> & Hm2 & Hk).
    exists (u1 ++ u2), rest, c2. rewrite app_assoc. split; [reflexivity|]. split.
    + constructor; assumption.
    + rewrite app_length, Nat.add_assoc. exact Hk.
  - destruct (m a s pos c k) as [r|] eqn:E.
    + injection H as ->. apply IHa in E. destruct E as (u & rest & c' & -> & Hm & Hk).
      exists u, rest, c'. repeat split; [apply mt_altl; exact Hm|exact Hk].
    + apply IHb in H. destruct H as (u & rest & c' & -> & Hm & Hk).
      exists u, rest, c'. repeat split; [apply mt_altr; exact Hm|exact Hk].
  - exact (star_m_sound (m a) a IHa _ s pos c k res H).
  - destruct (Nat.eqb_spec pos 0) as [->|Hn]; [|discriminate].
    exists [], s, c. repeat split; [constructor|exact H].
  - exists [], s, c. rewrite Nat.add_0_r.
    destruct s as [|x [|y s]].
    + repeat split; [constructor; left; reflexivity|exact H].
    + destruct (N.eqb_spec x 10) as [->|Hn]; [|discriminate].
      repeat split; [constructor; right; reflexivity|exact H].
    + discriminate.
  - apply IHa in H. destruct H as (u & rest & c' & -> & Hm & Hk).
    exists u, rest, (cap_set n (pos, pos + length u) c'). repeat split; [constructor; exact Hm|exact Hk].
  - discriminate.
Qed.

(* completeness for acceptance *)
Definition accepts (k : kont) (s : str) (pos : nat) : Prop := forall c, k s pos c <> None.

Definition complete_body (body : str -> nat -> caps -> kont -> option caps) (P : nat -> str -> str -> Prop) : Prop :=
  forall pos u rest k, P pos u rest -> accepts k rest (pos + length u) -> forall c, body (u ++ rest) pos c k <> None.

Lemma star_m_complete body a :
  complete_body body (mt a) ->
  forall pos u rest, mt (Star a) pos u rest ->
  forall fuel k, length (u ++ rest) < fuel -> accepts k rest (pos + length u) ->
  forall c, star_m body fuel (u ++ rest) pos c k <> None.
Proof.
  intros Hb pos u rest Hm. remember (Star a) as sa eqn:Hsa.
  induction Hm as [| | | | |a' pos rest|a' pos u1 u2 rest Hne Hm1 _ Hm2 IH2| | |]; try discriminate; injection Hsa as ->;
    intros fuel k Hf Hk c.
  - destruct fuel as [|f]; [cbn in Hf; lia|]. cbn [star_m app].
    destruct (body rest pos c _); [discriminate|]. rewrite Nat.add_0_r in Hk. apply Hk.
  - destruct fuel as [|f]; [lia|]. cbn [star_m].
    rewrite <- app_assoc.
    match goal with |- context [body ?s ?p ?c ?kk] => destruct (body s p c kk) eqn:E end; [discriminate|].
    exfalso. revert E. apply Hb; [exact Hm1|]. intros c'.
    destruct (Nat.ltb_spec (length (u2 ++ rest)) (length (u1 ++ u2 ++ rest))) as [_|Hge].
    2:{ rewrite app_length in Hge. destruct u1; [congruence|cbn in Hge; lia]. }
    + apply (IH2 eq_refl).
      * rewrite <- app_assoc, app_length in Hf. destruct u1; [congruence|cbn in Hf; lia].
      * rewrite app_length, Nat.add_assoc in Hk. exact Hk.
Qed.

Lemma m_complete r : complete_body (m r) (mt r).
Proof.
  induction r as [|cs|a IHa b IHb|a IHa b IHb|a IHa| | |n a IHa|]; intros pos u rest k Hm Hk c;
    inversion Hm; subst; cbn [m].
  - cbn [app length] in *. rewrite Nat.add_0_r in Hk. apply Hk.
  - cbn [app]. match goal with H : cs_mem _ _ = true |- _ => rewrite H end.
    cbn [length] in Hk. rewrite Nat.add_1_r in Hk. apply Hk.
  - rewrite <- app_assoc. apply IHa; [assumption|]. intros c'. apply IHb; [assumption|].
    rewrite app_length, Nat.add_assoc in Hk. exact Hk.
  - destruct (m a (u ++ rest) pos c k) eqn:E; [discriminate|]. exfalso. revert E. apply IHa; assumption.
  - destruct (m a (u ++ rest) pos c k) eqn:E; [discriminate|]. apply IHb; assumption.
  - cbn [app]. apply (star_m_complete (m a) a IHa pos [] rest Hm); [cbn; lia|exact Hk].
  - apply (star_m_complete (m a) a IHa pos _ rest Hm); [lia|exact Hk].
  - cbn [app length] in *. apply Hk.
  - cbn [app length] in *. rewrite Nat.add_0_r in Hk.
    match goal with H : _ \/ _ |- _ => destruct H as [->| ->] end; [apply Hk|cbn; apply Hk].
  - apply IHa; [assumption|]. intros c'. apply Hk.
Qed.

(* re.match acceptance = existence of a declarative match of some prefix *)
Theorem re_matches_iff r s :
  re_matches r s = true <-> exists u rest, s = u ++ rest /\ mt r 0 u rest.
Proof.
  unfold re_matches, re_match. split.
  - destruct (m r s 0 [] _) as [res|] eqn:E; [|discriminate]. intros _.
    apply m_sound in E. destruct E as (u & rest & c' & -> & Hm & _). exists u, rest. split; [reflexivity|exact Hm].
  - intros (u & rest & -> & Hm).
    destruct (m r (u ++ rest) 0 [] _) eqn:E; [reflexivity|]. exfalso. revert E.
    apply m_complete; [exact Hm|]. intros c. discriminate.
Qed.

(* facts read off the declarative semantics *)
Fixpoint all_cls (P : cset -> bool) (r : re) : bool :=
  match r with
  | Cls c => P c
  | Cat a b | Alt a b => all_cls P a && all_cls P b
  | Star a | Grp _ a => all_cls P a
  | _ => true
  end.

Lemma mt_consumed (a : chr) r pos u rest :
  mt r pos u rest -> all_cls (fun cs => negb (cs_mem a cs)) r = true -> ~ In a u.
Proof.
  induction 1 as [| cs x pos rest Hx | a0 b pos u1 u2 rest _ IH1 _ IH2 | a0 b pos u rest _ IH | a0 b pos u rest _ IH
                 | | a0 pos u1 u2 rest _ _ IH1 _ IH2 | | | n a0 pos u rest _ IH]; cbn [all_cls]; intros Hc.
  - intros [].
  - intros [<-|[]]. rewrite Hx in Hc. discriminate.
  - apply andb_true_iff in Hc. destruct Hc as [H1 H2]. intros Hin. apply in_app_or in Hin.
    destruct Hin; [exact (IH1 H1 H)|exact (IH2 H2 H)].
  - apply andb_true_iff in Hc. apply IH. tauto.
  - apply andb_true_iff in Hc. apply IH. tauto.
  - intros [].
  - intros Hin. apply in_app_or in Hin. destruct Hin as [H|H]; [exact (IH1 Hc H)|exact (IH2 Hc H)].
  - intros [].
  - intros [].
  - apply IH. exact Hc.
Qed.

(* a regex of the shape  x1 x2 ... Eol : whatever it matches leaves [] or a final newline *)
Fixpoint ends_eol (r : re) : bool :=
  match r with
  | Eol => true
  | Cat _ b => ends_eol b
  | Grp _ a => ends_eol a
  | _ => false
  end.

Lemma mt_ends_eol r pos u rest : mt r pos u rest -> ends_eol r = true -> rest = [] \/ rest = [10%N].
Proof.
  induction 1; cbn [ends_eol]; intros Hc; try discriminate; auto.
Qed.

Lemma anchored_chars (a : chr) r s :
  ends_eol r = true -> all_cls (fun cs => negb (cs_mem a cs)) r = true -> a <> 10%N ->
  re_matches r s = true -> ~ In a s.
Proof.
  intros He Hc Hnl Hm. apply re_matches_iff in Hm. destruct Hm as (u & rest & -> & Hm).
  pose proof (mt_consumed a _ _ _ _ Hm Hc) as Hu.
  destruct (mt_ends_eol _ _ _ _ Hm He) as [->| ->]; intros Hin; apply in_app_or in Hin;
    destruct Hin as [H|H]; try tauto; try (destruct H as [H|[]]; congruence); destruct H.
Qed.
