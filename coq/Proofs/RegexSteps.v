(* the instrumented matcher computes the same result as [m] and its step count is
   bounded by [work] *)
From PM Require Import Base.RegexCost Proofs.RegexCostProofs.
Open Scope nat_scope.

Definition strip (k : skont) : kont := fun s p c => snd (k s p c).

Lemma star_ms_result body body' :
  (forall s pos c k, snd (body s pos c k) = body' s pos c (strip k)) ->
  (forall s pos c k1 k2, (forall s' p' c', k1 s' p' c' = k2 s' p' c') -> body' s pos c k1 = body' s pos c k2) ->
  forall fuel s pos c k, snd (star_ms body fuel s pos c k) = star_m body' fuel s pos c (strip k).
Proof.
  intros Hb Hext fuel. induction fuel as [|f IH]; intros s pos c k; cbn [star_ms star_m]; [reflexivity|].
  match goal with |- context [body s pos c ?kk] => specialize (Hb s pos c kk); destruct (body s pos c kk) as [n1 r1] end.
  cbn [snd] in Hb.
  rewrite (Hext s pos c _ (strip (fun s' pos' c' => if Nat.ltb (length s') (length s) then star_ms body f s' pos' c' k else (0, None)))).
  - rewrite <- Hb. destruct r1 as [r|]; [reflexivity|]. unfold strip. destruct (k s pos c). reflexivity.
  - intros s' p' c'. unfold strip at 2. destruct (Nat.ltb (length s') (length s)); [symmetry; apply IH|reflexivity].
Qed.

Lemma star_m_ext body :
  (forall s pos c k1 k2, (forall s' p' c', k1 s' p' c' = k2 s' p' c') -> body s pos c k1 = body s pos c k2) ->
  forall fuel s pos c k1 k2, (forall s' p' c', k1 s' p' c' = k2 s' p' c') -> star_m body fuel s pos c k1 = star_m body fuel s pos c k2.
Proof.
  intros Hb fuel. induction fuel as [|f IH]; intros s pos c k1 k2 Hk; cbn [star_m]; [apply Hk|].
  rewrite (Hb s pos c _ (fun s' pos' c' => if Nat.ltb (length s') (length s) then star_m body f s' pos' c' k2 else None)).
  - rewrite Hk. reflexivity.
  - intros s' p' c'. destruct (Nat.ltb _ _); [apply IH; exact Hk|reflexivity].
Qed.

Lemma m_ext r : forall s pos c k1 k2, (forall s' p' c', k1 s' p' c' = k2 s' p' c') -> m r s pos c k1 = m r s pos c k2.
Proof.
  induction r as [|cs|a IHa b IHb|a IHa b IHb|a IHa| | |n a IHa|]; intros s pos c k1 k2 Hk; cbn [m].
  - apply Hk.
  - destruct s as [|y s']; [reflexivity|]. destruct (cs_mem y cs); [apply Hk|reflexivity].
  - apply IHa. intros s' p' c'. apply IHb. exact Hk.
  - rewrite (IHa s pos c k1 k2 Hk), (IHb s pos c k1 k2 Hk). reflexivity.
  - apply star_m_ext; [exact IHa|exact Hk].
  - destruct (Nat.eqb pos 0); [apply Hk|reflexivity].
  - destruct s as [|y [|z s']]; [apply Hk| |reflexivity]. destruct (N.eqb y 10); [apply Hk|reflexivity].
  - apply IHa. intros s' p' c'. apply Hk.
  - reflexivity.
Qed.

Theorem ms_result r : forall s pos c k, snd (ms r s pos c k) = m r s pos c (strip k).
Proof.
  induction r as [|cs|a IHa b IHb|a IHa b IHb|a IHa| | |n a IHa|]; intros s pos c k; cbn [ms m].
  - unfold strip. destruct (k s pos c). reflexivity.
  - destruct s as [|y s']; [reflexivity|]. destruct (cs_mem y cs); [|reflexivity]. unfold strip. destruct (k s' (S pos) c). reflexivity.
  - specialize (IHa s pos c (fun s' pos' c' => ms b s' pos' c' k)).
    destruct (ms a s pos c _) as [n x]. cbn [snd] in *. rewrite IHa. apply m_ext. intros s' p' c'. unfold strip at 1. apply IHb.
  - specialize (IHa s pos c k). destruct (ms a s pos c k) as [n1 r1]. cbn [snd] in IHa. rewrite <- IHa.
    destruct r1 as [x|]; [reflexivity|]. specialize (IHb s pos c k). destruct (ms b s pos c k) as [n2 r2]. exact IHb.
  - apply star_ms_result; [exact IHa|apply m_ext].
  - destruct (Nat.eqb pos 0); [|reflexivity]. unfold strip. destruct (k s pos c). reflexivity.
  - destruct s as [|y [|z s']]; [unfold strip; destruct (k [] pos c); reflexivity| |reflexivity].
    destruct (N.eqb y 10); [|reflexivity]. unfold strip. destruct (k [y] pos c). reflexivity.
  - specialize (IHa s pos c (fun s' pos' c' => k s' pos' (cap_set n (pos, pos') c'))).
    destruct (ms a s pos c _) as [n' x]. cbn [snd] in *. rewrite IHa. apply m_ext. intros. reflexivity.
  - reflexivity.
Qed.

(* ---- step bound *)
Definition kbound (k : skont) (K : str -> nat) : Prop := forall s p c, fst (k s p c) <= K s.

Lemma sum_map_flat_map {A B} (g : B -> nat) (f : A -> list B) l :
  sum_map g (flat_map f l) = sum_map (fun x => sum_map g (f x)) l.
Proof.
  induction l as [|x l IH]; [reflexivity|]. cbn [flat_map]. rewrite sum_map_app, sum_map_cons, IH. reflexivity.
Qed.

Lemma sum_map_add {A} (f g : A -> nat) l : sum_map (fun x => f x + g x) l = sum_map f l + sum_map g l.
Proof. induction l as [|x l IH]; [reflexivity|]. rewrite !sum_map_cons, IH. lia. Qed.

Lemma sum_map_ext {A} (f g : A -> nat) l : (forall x, f x = g x) -> sum_map f l = sum_map g l.
Proof. intros H. induction l as [|x l IH]; [reflexivity|]. rewrite !sum_map_cons, IH, H. reflexivity. Qed.

Definition steps_body (body : str -> nat -> caps -> skont -> nat * option caps) (w : str -> nat) (f : str -> list str) : Prop :=
  forall s pos c k K, kbound k K -> fst (body s pos c k) <= w s + sum_map K (f s).

Lemma star_ms_steps body w f :
  steps_body body w f -> forall fuel, steps_body (star_ms body fuel) (star_work w f fuel) (star_exits f fuel).
Proof.
  intros Hb fuel. induction fuel as [|n IH]; intros s pos c k K Hk; cbn [star_ms star_work star_exits].
  - rewrite sum_map_cons, sum_map_nil. specialize (Hk s pos c). lia.
  - remember (fun (s' : str) (pos' : nat) (c' : caps) => if Nat.ltb (length s') (length s) then star_ms body n s' pos' c' k else (0, None)) as k' eqn:Ek'.
    remember (fun s' : str => if Nat.ltb (length s') (length s) then star_work w f n s' + sum_map K (star_exits f n s') else 0) as K' eqn:EK'.
    assert (Hk' : kbound k' K').
    { intros s' p' c'. subst k' K'. destruct (Nat.ltb (length s') (length s)); [apply IH; exact Hk|cbn; lia]. }
    specialize (Hb s pos c k' K' Hk').
    assert (HK' : sum_map K' (f s) =
                  sum_map (fun s' : str => if Nat.ltb (length s') (length s) then star_work w f n s' else 0) (f s) +
                  sum_map (fun x : str => sum_map K (if Nat.ltb (length x) (length s) then star_exits f n x else [])) (f s)).
    { rewrite <- sum_map_add. apply sum_map_ext. intros x. subst K'. destruct (Nat.ltb (length x) (length s)); [reflexivity|rewrite sum_map_nil; lia]. }
    rewrite HK' in Hb. clear HK' Hk' EK'.
    destruct (body s pos c k') as [n1 r1]. cbn [fst] in Hb.
    rewrite sum_map_app, sum_map_cons, sum_map_nil, sum_map_flat_map.
    destruct r1 as [r|]; cbn [fst]; unfold str in *; [lia|].
    pose proof (Hk s pos c) as Hks. destruct (k s pos c) as [n2 r2]. cbn [fst] in *. lia.
Qed.

Theorem ms_steps r : steps_body (ms r) (work r) (exits r).
Proof.
  induction r as [|cs|a IHa b IHb|a IHa b IHb|a IHa| | |n a IHa|]; intros s pos c k K Hk; cbn [ms work exits].
  - rewrite sum_map_cons, sum_map_nil. pose proof (Hk s pos c). destruct (k s pos c). cbn [fst] in *. lia.
  - destruct s as [|y s']; [cbn; lia|]. destruct (cs_mem y cs); [|cbn; lia].
    rewrite sum_map_cons, sum_map_nil. pose proof (Hk s' (S pos) c). destruct (k s' (S pos) c). cbn [fst] in *. lia.
  - set (k' := fun s' pos' c' => ms b s' pos' c' k).
    assert (Hk' : kbound k' (fun s' => work b s' + sum_map K (exits b s'))).
    { intros s' p' c'. apply IHb. exact Hk. }
    specialize (IHa s pos c k' _ Hk'). destruct (ms a s pos c k') as [n x]. cbn [fst] in *.
    rewrite sum_map_add in IHa. rewrite sum_map_flat_map. lia.
  - specialize (IHa s pos c k K Hk). specialize (IHb s pos c k K Hk). rewrite sum_map_app.
    destruct (ms a s pos c k) as [n1 r1]. destruct r1 as [x|]; cbn [fst] in *; [lia|].
    destruct (ms b s pos c k) as [n2 r2]. cbn [fst] in *. lia.
  - apply (star_ms_steps (ms a) (work a) (exits a) IHa). exact Hk.
  - destruct (Nat.eqb pos 0); [|cbn; lia]. rewrite sum_map_cons, sum_map_nil.
    pose proof (Hk s pos c). destruct (k s pos c). cbn [fst] in *. lia.
  - destruct s as [|y [|z s']]; [| |cbn; lia].
    + rewrite sum_map_cons, sum_map_nil. pose proof (Hk [] pos c). destruct (k [] pos c). cbn [fst] in *. lia.
    + destruct (N.eqb y 10); [|cbn; lia]. rewrite sum_map_cons, sum_map_nil.
      pose proof (Hk [y] pos c). destruct (k [y] pos c). cbn [fst] in *. lia.
  - set (k' := fun s' pos' c' => k s' pos' (cap_set n (pos, pos') c')).
    assert (Hk' : kbound k' K) by (intros s' p' c'; apply Hk).
    specialize (IHa s pos c k' K Hk'). destruct (ms a s pos c k') as [n' x]. cbn [fst] in *. lia.
  - cbn. lia.
Qed.

(* ---- headline: polynomial step bound for every safe expression *)
Theorem match_steps_poly r s : safe r = true -> match_steps r s <= evalP (WP r) (length s).
Proof.
  intros H. unfold match_steps.
  pose proof (ms_steps r s 0 [] (fun _ _ c => (0, Some c)) (fun _ => 0) (fun _ _ _ => Nat.le_refl 0)) as Hs.
  assert (Hz : forall l : list str, sum_map (fun _ : str => 0) l = 0).
  { intros l. induction l as [|x l IH]; [reflexivity|]. rewrite sum_map_cons, IH. reflexivity. }
  rewrite Hz in Hs. pose proof (work_bound r H s). cbn [fst] in *. lia.
Qed.

Theorem match_steps_same_result r s : snd (ms r s 0 [] (fun _ _ c => (0, Some c))) = re_match r s.
Proof. rewrite ms_result. reflexivity. Qed.
