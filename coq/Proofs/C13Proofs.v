From PM Require Import Base.PyVal Model.Nvra Proofs.StrDec Proofs.NvraProofs Gen.Tables.

(* The property's alphabet *)
Definition name_char (c : chr) : bool :=
  is_lower c || is_upper c || is_digit c || N.eqb c 46 || N.eqb c 95 || N.eqb c 43 || N.eqb c 45.
Definition vr_char (c : chr) : bool :=
  is_lower c || is_upper c || is_digit c || N.eqb c 46 || N.eqb c 95 || N.eqb c 43 || N.eqb c 126 || N.eqb c 94.

Definition legal_dir (dir : str) : Prop := (dir = [] \/ exists d, dir = d ++ [c_slash]) /\ ~ In c_nl dir.
Definition legal_sfx (sfx : str) : Prop := sfx = [] \/ sfx = dot_rpm.

Definition arch_ok (a : str) : bool :=
  negb (memc c_dot a) && negb (memc c_slash a) && negb (memc c_nl a) && negb (str_eqb a (lit "rpm")).

(* obligation on the regenerated table *)
Lemma arches_ok : forallb arch_ok RPM_ARCHES = true.
Proof. vm_compute. reflexivity. Qed.

Lemma forallb_notin (p : chr -> bool) s c : forallb p s = true -> p c = false -> ~ In c s.
Proof. intros H Hc Hin. rewrite forallb_forall in H. specialize (H _ Hin). congruence. Qed.

Lemma c13_roundtrip dir name eo version release arch sfx :
  legal_dir dir -> legal_sfx sfx ->
  forallb name_char name = true -> forallb vr_char version = true -> forallb vr_char release = true ->
  In arch RPM_ARCHES ->
  parse_nvra (dir ++ fmt name eo version release arch ++ sfx) =
  Ok {| n_name := name; n_epoch := epoch_of eo; n_version := version; n_release := release; n_arch := arch |}.
Proof.
  intros [Hd1 Hd2] Hs Hn Hv Hr Ha.
  pose proof arches_ok as Hok. rewrite forallb_forall in Hok. specialize (Hok _ Ha).
  unfold arch_ok in Hok. rewrite !andb_true_iff, !negb_true_iff in Hok.
  destruct Hok as [[[A1 A2] A3] A4].
  apply memc_false in A1, A2, A3. apply str_eqb_neq in A4.
  apply nvra_roundtrip_gen; try assumption;
    try (eapply forallb_notin; [eassumption|reflexivity]).
Qed.

Definition legal_parts (p : nvra) : Prop :=
  forallb name_char (n_name p) = true /\ forallb vr_char (n_version p) = true /\
  forallb vr_char (n_release p) = true /\ In (n_arch p) RPM_ARCHES.

Lemma c13_fixpoint p : legal_parts p -> parse_nvra (format_nevra p) = Ok p.
Proof.
  intros (Hn & Hv & Hr & Ha). destruct p as [name e version release arch]. cbn in *.
  pose proof (c13_roundtrip [] name (Some e) version release arch []
                (conj (or_introl eq_refl) (fun H => H)) (or_introl eq_refl) Hn Hv Hr Ha) as H.
  cbn [app epoch_of] in H. rewrite app_nil_r in H. unfold fmt in H. unfold format_nevra. cbn [n_name n_epoch n_version n_release n_arch].
  rewrite <- H. f_equal. repeat (rewrite <- ?app_assoc; cbn [app]). reflexivity.
Qed.

(* non-vacuity: a dashed name with a pure-digit segment, epoch, directory, .rpm suffix *)
Example c13_example :
  parse_nvra (lit "Packages/g/gtk+3-2-1:3.24.1~rc1-2.el9_1.x86_64.rpm") =
  Ok {| n_name := lit "gtk+3-2"; n_epoch := 1; n_version := lit "3.24.1~rc1"; n_release := lit "2.el9_1"; n_arch := lit "x86_64" |}.
Proof. vm_compute. reflexivity. Qed.
