From PM Require Import Base.PyVal Base.Regex Model.ReleaseId Proofs.RegexSem Gen.Regexes Gen.Tables.
Open Scope nat_scope.

Lemma suffix_total (a b x y : str) : a ++ x = b ++ y -> endswith x y = true \/ endswith y x = true.
Proof.
  revert b; induction a as [|h a IH]; intros b H.
  - left. apply endswith_spec. exists b. exact H.
  - destruct b as [|h' b].
    + right. apply endswith_spec. exists (h :: a). symmetry. exact H.
    + injection H as _ H. exact (IH b H).
Qed.

Lemma endswith_refl_len x y : endswith x y = true -> endswith y x = true -> x = y.
Proof.
  intros H1 H2. apply endswith_spec in H1, H2. destruct H1 as [t1 H1], H2 as [t2 H2].
  assert (length x = length t1 + length y) by (rewrite H1, app_length; reflexivity).
  assert (length y = length t2 + length x) by (rewrite H2, app_length; reflexivity).
  destruct t1; [exact H1|cbn in *; lia].
Qed.

(* table obligations on the regenerated RELEASE_TYPES *)
Definition last_seg (t : str) : str :=
  match split_last c_dash t with Some (_, b) => b | None => t end.

Definition types_table_ok : bool :=
  forallb (fun t => valid_type (last_seg t)) RELEASE_TYPES &&
  forallb (fun t => forallb (fun t' => str_eqb t t' || negb (endswith (c_dash :: t) (c_dash :: t'))) RELEASE_TYPES) RELEASE_TYPES &&
  forallb (fun t => negb (memc c_at t)) RELEASE_TYPES &&
  forallb valid_type RELEASE_TYPES &&
  mem_str ga RELEASE_TYPES.

Lemma types_table_ok_holds : types_table_ok = true.
Proof. vm_compute. reflexivity. Qed.

Lemma types_last_seg t : In t RELEASE_TYPES -> valid_type (last_seg t) = true.
Proof.
  pose proof types_table_ok_holds as H. unfold types_table_ok in H. rewrite !andb_true_iff in H.
  destruct H as [[[[H _] _] _] _]. rewrite forallb_forall in H. exact (H t).
Qed.

Lemma types_no_suffix t t' :
  In t RELEASE_TYPES -> In t' RELEASE_TYPES -> endswith (c_dash :: t) (c_dash :: t') = true -> t = t'.
Proof.
  pose proof types_table_ok_holds as H. unfold types_table_ok in H. rewrite !andb_true_iff in H.
  destruct H as [[[[_ H] _] _] _]. rewrite forallb_forall in H. intros Ht Ht' He.
  specialize (H t Ht). rewrite forallb_forall in H. specialize (H t' Ht').
  rewrite He in H. cbn in H. rewrite orb_false_r in H. apply str_eqb_eq. exact H.
Qed.

Lemma types_no_at t : In t RELEASE_TYPES -> ~ In c_at t.
Proof.
  pose proof types_table_ok_holds as H. unfold types_table_ok in H. rewrite !andb_true_iff in H.
  destruct H as [[[_ H] _] _]. rewrite forallb_forall in H. intros Ht. specialize (H t Ht).
  apply negb_true_iff in H. apply memc_false. exact H.
Qed.

Lemma find_type_none l id :
  (forall t, In t l -> endswith id (c_dash :: t) = false) -> find_type l id = None.
Proof.
  induction l as [|t l IH]; intros H; cbn [find_type]; [reflexivity|].
  rewrite (H t (or_introl eq_refl)). apply IH. intros t' Ht'. apply H. right. exact Ht'.
Qed.

Lemma find_type_some l id t :
  In t l -> endswith id (c_dash :: t) = true ->
  (forall t', In t' l -> endswith id (c_dash :: t') = true -> t' = t) ->
  find_type l id = Some t.
Proof.
  induction l as [|t0 l IH]; intros Hin He Hu; [destruct Hin|]. cbn [find_type].
  destruct (endswith id (c_dash :: t0)) eqn:E.
  - f_equal. apply Hu; [left; reflexivity|exact E].
  - destruct Hin as [->|Hin]; [congruence|]. apply IH; [exact Hin|exact He|].
    intros t' Ht'. apply Hu. right. exact Ht'.
Qed.

(* a "-t" suffix of s-v (v dash-free) forces v to be t's last segment *)
Lemma dash_suffix_last_seg s v t :
  ~ In c_dash v -> endswith (s ++ c_dash :: v) (c_dash :: t) = true -> v = last_seg t.
Proof.
  intros Hv He. apply endswith_spec in He. destruct He as [w Hw].
  unfold last_seg. destruct (split_last c_dash t) as [[x y]|] eqn:E.
  - apply split_last_some in E. destruct E as [-> Hy].
    pose proof (split_last_app c_dash s v Hv) as H1. rewrite Hw in H1.
    replace (w ++ c_dash :: x ++ c_dash :: y) with ((w ++ c_dash :: x) ++ c_dash :: y) in H1
      by (rewrite <- app_assoc; reflexivity).
    rewrite (split_last_app c_dash _ y Hy) in H1. congruence.
  - apply split_last_none_inv in E.
    pose proof (split_last_app c_dash s v Hv) as H1. rewrite Hw in H1.
    rewrite (split_last_app c_dash w t E) in H1. congruence.
Qed.

Definition K2 (s v t : str) : Prop := In c_dash s /\ t = ga /\ valid_type v = true.

Definition part_id (s v t : str) : str :=
  if str_eqb t ga then s ++ c_dash :: v else s ++ c_dash :: v ++ c_dash :: t.

Lemma count_dash_notin v : ~ In c_dash v -> count c_dash v = 0.
Proof. apply count_0. Qed.

Lemma parse_part_roundtrip s v t :
  In t RELEASE_TYPES -> ~ In c_dash v -> ~ K2 s v t ->
  parse_part (part_id s v t) = Ok (s, v, t).
Proof.
  intros Ht Hv HK. unfold part_id, parse_part.
  destruct (str_eqb_spec t ga) as [->|Hga].
  - (* implicit ga *)
    rewrite count_app. cbn [count]. rewrite N.eqb_refl, (count_dash_notin v Hv).
    destruct (count c_dash s) as [|n] eqn:Ec.
    + cbn [Nat.add Nat.eqb]. apply count_0 in Ec. rewrite (split_first_app c_dash s v Ec). reflexivity.
    + replace (Nat.eqb (S n + 1) 1) with false by (symmetry; apply Nat.eqb_neq; lia).
      assert (Hs : In c_dash s).
      { destruct (in_dec N.eq_dec c_dash s) as [H|H]; [exact H|]. apply count_0 in H. lia. }
      assert (Hvt : valid_type v = false).
      { destruct (valid_type v) eqn:E; [|reflexivity]. exfalso. apply HK. repeat split; assumption. }
      rewrite find_type_none.
      * rewrite (split_last_app c_dash s v Hv), Hvt. reflexivity.
      * intros t' Ht'. destruct (endswith (s ++ c_dash :: v) (c_dash :: t')) eqn:E; [|reflexivity].
        apply dash_suffix_last_seg in E; [|exact Hv]. rewrite E, (types_last_seg t' Ht') in Hvt. discriminate.
  - (* explicit known type *)
    set (id := s ++ c_dash :: v ++ c_dash :: t).
    assert (Hc : Nat.eqb (count c_dash id) 1 = false).
    { apply Nat.eqb_neq. unfold id. rewrite count_app. cbn [count]. rewrite N.eqb_refl, count_app. cbn [count].
      rewrite N.eqb_refl. lia. }
    rewrite Hc.
    assert (He : endswith id (c_dash :: t) = true).
    { apply endswith_spec. exists (s ++ c_dash :: v). unfold id. rewrite <- app_assoc. reflexivity. }
    rewrite (find_type_some RELEASE_TYPES id t Ht He).
    + replace id with ((s ++ c_dash :: v ++ [c_dash]) ++ t)
        by (unfold id; repeat (rewrite <- ?app_assoc; cbn [app]); reflexivity).
      rewrite drop_last_app. unfold rsplit2.
      replace (s ++ c_dash :: v ++ [c_dash]) with ((s ++ c_dash :: v) ++ c_dash :: [])
        by (repeat (rewrite <- ?app_assoc; cbn [app]); reflexivity).
      rewrite (split_last_app c_dash (s ++ c_dash :: v) [] (fun H => H)).
      rewrite (split_last_app c_dash s v Hv). reflexivity.
    + intros t' Ht' He'. apply endswith_spec in He, He'. destruct He as [w1 H1], He' as [w2 H2].
      rewrite H1 in H2. destruct (suffix_total _ _ _ _ H2) as [H|H].
      * symmetry. apply types_no_suffix; assumption.
      * apply types_no_suffix; assumption.
Qed.

(* what create_part returns when it accepts *)
Lemma create_part_ok s v t id :
  create_part s v t = Ok id -> id = part_id s v t /\ valid_short s = true /\ valid_version v = true /\ valid_type t = true.
Proof.
  unfold create_part, part_id.
  destruct (valid_short s); cbn [negb]; [|discriminate].
  destruct (valid_version v); cbn [negb]; [|discriminate].
  destruct (valid_type t); cbn [negb]; [|discriminate].
  intros H; injection H as <-. auto.
Qed.

Lemma create_part_refuses_iff s v t :
  create_part s v t = Err ValueError <-> valid_short s = false \/ valid_version v = false \/ valid_type t = false.
Proof.
  unfold create_part.
  destruct (valid_short s), (valid_version v), (valid_type t); cbn [negb]; split; intros H;
    try reflexivity; try discriminate; try (destruct H as [H|[H|H]]; discriminate); auto.
Qed.

(* the short and type patterns exclude '@' (regenerated regexes) *)
Lemma short_re_shape :
  ends_eol re_release_short = true /\ all_cls (fun cs => negb (cs_mem c_at cs)) re_release_short = true /\
  ends_eol re_release_type = true /\ all_cls (fun cs => negb (cs_mem c_at cs)) re_release_type = true.
Proof. vm_compute. auto. Qed.

Lemma valid_short_no_at s : valid_short s = true -> ~ In c_at s.
Proof.
  destruct short_re_shape as (H1 & H2 & _). apply anchored_chars; [exact H1|exact H2|discriminate].
Qed.

Lemma valid_type_no_at s : valid_type s = true -> ~ In c_at s.
Proof.
  destruct short_re_shape as (_ & _ & H1 & H2). apply anchored_chars; [exact H1|exact H2|discriminate].
Qed.

Lemma part_id_no_at s v t :
  ~ In c_at s -> ~ In c_at v -> ~ In c_at t -> ~ In c_at (part_id s v t).
Proof.
  intros Hs Hv Ht. unfold part_id. destruct (str_eqb t ga); intros Hin.
  - apply in_app_or in Hin. destruct Hin as [H|[H|H]]; [tauto|discriminate|tauto].
  - apply in_app_or in Hin. destruct Hin as [H|[H|H]]; [tauto|discriminate|].
    apply in_app_or in H. destruct H as [H|[H|H]]; [tauto|discriminate|tauto].
Qed.

Lemma split_at_two r b : ~ In c_at r -> ~ In c_at b -> split c_at (r ++ c_at :: b) = [r; b].
Proof.
  intros Hr Hb. unfold split.
  assert (H1 : forall acc x, ~ In c_at x -> split_acc c_at acc x = [rev acc ++ x]).
  { intros acc x; revert acc; induction x as [|h x IH]; intros acc Hx; cbn [split_acc].
    - rewrite app_nil_r. reflexivity.
    - destruct (N.eqb_spec h c_at) as [->|Hn]; [exfalso; apply Hx; left; reflexivity|].
      rewrite IH; [|intros H; apply Hx; right; exact H]. cbn [rev]. rewrite <- app_assoc. reflexivity. }
  assert (H2 : forall acc x, ~ In c_at x -> split_acc c_at acc (x ++ c_at :: b) = (rev acc ++ x) :: split_acc c_at [] b).
  { intros acc x; revert acc; induction x as [|h x IH]; intros acc Hx; cbn [split_acc app].
    - rewrite N.eqb_refl, app_nil_r. reflexivity.
    - destruct (N.eqb_spec h c_at) as [->|Hn]; [exfalso; apply Hx; left; reflexivity|].
      rewrite IH; [|intros H; apply Hx; right; exact H]. cbn [rev]. rewrite <- app_assoc. reflexivity. }
  rewrite (H2 [] r Hr), (H1 [] b Hb). reflexivity.
Qed.

Theorem relid_roundtrip s v t bp id :
  In t RELEASE_TYPES -> ~ In c_dash v -> ~ In c_at v -> ~ K2 s v t ->
  match bp with
  | None => True
  | Some (bs, bv, bt) => In bt RELEASE_TYPES /\ ~ In c_dash bv /\ ~ In c_at bv /\ ~ K2 bs bv bt
  end ->
  create_release_id s v t bp = Ok id ->
  parse_release_id id = Ok ((s, v, t), bp).
Proof.
  intros Ht Hv Hva HK Hbp Hc. unfold create_release_id in Hc.
  destruct (create_part s v t) as [r|e] eqn:Er; cbn [bind] in Hc; [|discriminate].
  apply create_part_ok in Er. destruct Er as (-> & Hs & _ & Hty).
  assert (Hr_at : ~ In c_at (part_id s v t)).
  { apply part_id_no_at; [apply valid_short_no_at; exact Hs|exact Hva|apply types_no_at; exact Ht]. }
  destruct bp as [[[bs bv] bt]|].
  - destruct Hbp as (Hbt & Hbv & Hbva & HbK).
    destruct (create_part bs bv bt) as [b|e] eqn:Eb; cbn [bind] in Hc; [|discriminate].
    injection Hc as <-. apply create_part_ok in Eb. destruct Eb as (-> & Hbs & _ & Hbty).
    assert (Hb_at : ~ In c_at (part_id bs bv bt)).
    { apply part_id_no_at; [apply valid_short_no_at; exact Hbs|exact Hbva|apply types_no_at; exact Hbt]. }
    unfold parse_release_id. rewrite memc_app. cbn [memc]. rewrite N.eqb_refl, orb_true_r. cbn [orb].
    rewrite (split_at_two _ _ Hr_at Hb_at).
    rewrite (parse_part_roundtrip s v t Ht Hv HK), (parse_part_roundtrip bs bv bt Hbt Hbv HbK). reflexivity.
  - injection Hc as <-. unfold parse_release_id. apply memc_false in Hr_at. rewrite Hr_at.
    rewrite (parse_part_roundtrip s v t Ht Hv HK). reflexivity.
Qed.

(* K2 is inherent: one string, two accepted argument tuples with known types *)
Lemma relid_ambiguous :
  exists id, create_release_id (lit "a-b") (lit "eus") (lit "ga") None = Ok id /\
             create_release_id (lit "a") (lit "b") (lit "eus") None = Ok id /\
             In (lit "eus") RELEASE_TYPES /\ In (lit "ga") RELEASE_TYPES.
Proof. exists (lit "a-b-eus"). vm_compute. repeat split; auto 20. Qed.

(* non-vacuity: dashed short, numeric version, implicit ga, with base product of dashed type *)
Example relid_example :
  exists id, create_release_id (lit "my-product") (lit "1.0") (lit "ga") (Some (lit "rhel-ha", lit "Xga", lit "updates-testing")) = Ok id /\
             parse_release_id id = Ok ((lit "my-product", lit "1.0", lit "ga"), Some (lit "rhel-ha", lit "Xga", lit "updates-testing")).
Proof. eexists. vm_compute. split; reflexivity. Qed.
