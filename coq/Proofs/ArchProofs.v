(* C10: no source / unknown architecture key, over all add histories and legacy loads *)
From PM Require Import Base.PyVal Base.Obj Model.Common Model.Images Model.Manifests Model.ManifestDocs
     Proofs.ManifestsProofs Proofs.ImagesProofs Gen.Tables.

Definition arch_ok (a : str) : bool := mem_str a RPM_ARCHES && negb (is_src_arch a).

(* two-level maps: variant -> arch -> X *)
Definition keys2_ok {X} (m : list (str * list (str * X))) : Prop :=
  forall v arches, In (v, arches) m -> forall a x, In (a, x) arches -> arch_ok a = true.

Lemma in_upd {A} k (f : option A -> A) l k' v' :
  In (k', v') (upd k f l) -> (k' = k /\ v' = f (assoc k l)) \/ (k' <> k /\ In (k', v') l) \/ (In (k', v') l).
Proof.
  induction l as [|[k2 v2] l IH]; cbn [upd assoc].
  - intros [H|[]]. injection H as <- <-. left. auto.
  - destruct (str_eqb_spec k k2) as [->|Hn].
    + intros [H|H]; [injection H as <- <-; left; auto|right; right; right; exact H].
    + intros [H|H]; [right; right; left; exact H|].
      destruct (IH H) as [[-> ->]|[[Hne Hin]|Hin]].
      * left. split; reflexivity.
      * right. left. split; [exact Hne|right; exact Hin].
      * right. right. right. exact Hin.
Qed.

Lemma keys2_ok_upd {X} (m : list (str * list (str * X))) v a (g : option X -> X) :
  keys2_ok m -> arch_ok a = true ->
  keys2_ok (upd v (fun o => upd a g (dflt [] o)) m).
Proof.
  intros Hm Ha v' arches' Hin a' x' Hin'.
  apply in_upd in Hin. destruct Hin as [[-> ->]|[[_ Hin]|Hin]].
  - apply in_upd in Hin'. destruct Hin' as [[-> _]|[[_ Hin']|Hin']]; [exact Ha| |].
    + destruct (assoc v m) as [ar|] eqn:E; cbn [dflt] in Hin'; [|destruct Hin'].
      apply assoc_In in E. exact (Hm v ar E a' x' Hin').
    + destruct (assoc v m) as [ar|] eqn:E; cbn [dflt] in Hin'; [|destruct Hin'].
      apply assoc_In in E. exact (Hm v ar E a' x' Hin').
  - exact (Hm v' arches' Hin a' x' Hin').
  - exact (Hm v' arches' Hin a' x' Hin').
Qed.

(* ---- images *)
Theorem images_add_arch_ok vt c v a img c' :
  keys2_ok c -> images_add vt c v a img = Ok c' -> keys2_ok c'.
Proof.
  intros Hc H. unfold images_add in H. inv_guard H as G1. inv_guard H as G2. inv_guard H as G3. injection H as <-.
  apply keys2_ok_upd; [exact Hc|]. unfold arch_ok. rewrite G1, G2. reflexivity.
Qed.

Theorem images_reach_arch_ok vt ops : keys2_ok (fold_left (apply_add vt) ops []).
Proof.
  assert (H : forall c, keys2_ok c -> keys2_ok (fold_left (apply_add vt) ops c)).
  { induction ops as [|op ops IH]; intros c Hc; [exact Hc|]. cbn [fold_left]. apply IH.
    unfold apply_add. destruct (images_add vt c _ _ _) eqn:E; [|exact Hc]. exact (images_add_arch_ok _ _ _ _ _ _ Hc E). }
  apply H. intros v arches [].
Qed.

(* legacy (<= 1.1) loads: a 'src' image is re-filed under every non-src arch of the variant, through add *)
Lemma fold_adds_arch_ok vt v img (arches : list str) :
  forall acc c', (forall c, acc = Ok c -> keys2_ok c) ->
  fold_left (fun acc a => do c' <- acc; if str_eqb a s_src then Ok c' else images_add vt c' v a img) arches acc = Ok c' ->
  keys2_ok c'.
Proof.
  induction arches as [|a arches IH]; intros acc c' Hacc H; cbn [fold_left] in H; [exact (Hacc c' H)|].
  eapply IH; [|exact H]. intros c Hc.
  destruct acc as [c0|e]; cbn [bind] in Hc; [|discriminate].
  destruct (str_eqb a s_src); [injection Hc as <-; exact (Hacc c0 eq_refl)|].
  exact (images_add_arch_ok _ _ _ _ _ _ (Hacc c0 eq_refl) Hc).
Qed.

Theorem add_loaded_arch_ok vt doc_arches c v a img c' :
  keys2_ok c -> add_loaded vt doc_arches c v a img = Ok c' -> keys2_ok c'.
Proof.
  intros Hc H. unfold add_loaded in H.
  destruct (vt_leb vt (1, 1)); [|exact (images_add_arch_ok _ _ _ _ _ _ Hc H)].
  destruct (str_eqb a s_src); [|exact (images_add_arch_ok _ _ _ _ _ _ Hc H)].
  apply (fold_adds_arch_ok vt v img doc_arches (Ok c) c'); [|exact H]. intros c0 E. injection E as <-. exact Hc.
Qed.

(* a src image of a <= 1.1 document lands under each binary arch of its variant (when those adds are accepted) *)
Lemma in_cell_after_add vt c v a img c' :
  images_add vt c v a img = Ok c' ->
  exists arches imgs, assoc v c' = Some arches /\ assoc a arches = Some imgs /\ In (fst img) (map fst imgs).
Proof.
  intros H. unfold images_add in H. inv_guard H as G1. inv_guard H as G2. inv_guard H as G3. injection H as <-.
  eexists. eexists. rewrite assoc_upd_same. split; [reflexivity|]. rewrite assoc_upd_same. split; [reflexivity|].
  generalize (dflt [] (assoc a (dflt [] (assoc v c)))) as l. clear. intros l.
  induction l as [|x l IH]; cbn [set_add map In]; [left; reflexivity|].
  destruct (Nat.eqb_spec (fst x) (fst img)) as [E|E]; cbn [map In]; [left; exact E|right; exact IH].
Qed.

(* ---- rpms *)
Theorem rpms_add_arch_ok m v a n p sg c sr m' :
  keys2_ok m -> rpms_add m v a n p sg c sr = Ok m' -> keys2_ok m'.
Proof.
  intros Hm H. unfold rpms_add in H.
  inv_guard H as G1. inv_guard H as G2. inv_guard H as G3. inv_guard H as G4.
  inv_bind H as [nc nd] G5. inv_guard H as G6. inv_guard H as G7. inv_guard H as G8.
  inv_bind H as sc G9. injection H as <-.
  apply keys2_ok_upd; [exact Hm|]. unfold arch_ok. rewrite G1, G2. reflexivity.
Qed.

Definition apply_rpms_add (m : rpms_t) (op : str * str * str * str * option str * str * option str) : rpms_t :=
  let '(v, a, n, p, sg, c, sr) := op in
  match rpms_add m v a n p sg c sr with Ok m' => m' | Err _ => m end.

Theorem rpms_reach_arch_ok ops : keys2_ok (fold_left apply_rpms_add ops []).
Proof.
  assert (H : forall m, keys2_ok m -> keys2_ok (fold_left apply_rpms_add ops m)).
  { induction ops as [|op ops IH]; intros m Hm; [exact Hm|]. cbn [fold_left]. apply IH.
    destruct op as [[[[[[v a] n] p] sg] c] sr]. unfold apply_rpms_add.
    destruct (rpms_add m v a n p sg c sr) eqn:E; [|exact Hm]. exact (rpms_add_arch_ok _ _ _ _ _ _ _ _ _ Hm E). }
  apply H. intros v arches [].
Qed.

(* generic: a fold over result-threaded steps preserves an invariant of the Ok states *)
Lemma fold_res_inv {A S} (P : S -> Prop) (step : result S -> A -> result S) (l : list A) :
  (forall acc x s', (forall s, acc = Ok s -> P s) -> step acc x = Ok s' -> P s') ->
  forall acc s', (forall s, acc = Ok s -> P s) -> fold_left step l acc = Ok s' -> P s'.
Proof.
  intros Hstep. induction l as [|x l IH]; intros acc s' Hacc H; cbn [fold_left] in H; [exact (Hacc s' H)|].
  apply (IH (step acc x) s'); [|exact H]. intros s Hs. exact (Hstep acc x s Hacc Hs).
Qed.

(* the 0.3 reader files everything through add: the converted manifest has no source architecture key *)
Theorem rpms_03_arch_ok manifest m : deser_rpms_0_3 manifest = Ok m -> keys2_ok m.
Proof.
  unfold deser_rpms_0_3. intros H. inv_bind H as variants G.
  revert H. apply (fold_res_inv keys2_ok); [|intros s E; injection E as <-; intros v arches []].
  intros acc va s' Hacc H. destruct acc as [m0|e]; cbn [bind] in H; [|discriminate].
  inv_bind H as arches Ga. revert H.
  apply (fold_res_inv keys2_ok); [|intros s E; injection E as <-; exact (Hacc m0 eq_refl)].
  intros acc2 aa s2 Hacc2 H. destruct acc2 as [m2|e]; cbn [bind] in H; [|discriminate].
  destruct (str_eqb (fst aa) s_src); [injection H as <-; exact (Hacc2 m2 eq_refl)|].
  inv_bind H as srpms Gs. revert H.
  apply (fold_res_inv keys2_ok); [|intros s E; injection E as <-; exact (Hacc2 m2 eq_refl)].
  intros acc3 sr s3 Hacc3 H. destruct acc3 as [m3|e]; cbn [bind] in H; [|discriminate].
  inv_bind H as srctab G1. inv_bind H as srpm_data G2. inv_bind H as rpms G3. revert H.
  apply (fold_res_inv keys2_ok); [|intros s E; injection E as <-; exact (Hacc3 m3 eq_refl)].
  intros acc4 rp s4 Hacc4 H. destruct acc4 as [m4|e]; cbn [bind] in H; [|discriminate].
  inv_bind H as ty G4. inv_bind H as cat_s G5. inv_bind H as path0 G6. inv_bind H as path G7.
  inv_bind H as sig0 G8. inv_bind H as sig G9. inv_bind H as m5 G10.
  pose proof (rpms_add_arch_ok _ _ _ _ _ _ _ _ _ (Hacc4 m4 eq_refl) G10) as H5.
  destruct srpm_data; try (injection H as <-; exact H5);
    (inv_bind H as spath0 K1; inv_bind H as spath K2; inv_bind H as ssig0 K3; inv_bind H as ssig K4;
     exact (rpms_add_arch_ok _ _ _ _ _ _ _ _ _ H5 H)).
Qed.
