(* C08 - serialisation is canonical: output depends on content only *)
From PM Require Import Base.PyVal Base.Obj Base.Json Proofs.StrOrder Proofs.JsonCanon.
From Coq Require Import Permutation.

(* the bytes written for a document are a function of the CONTENT of every mapping in it, at every depth:
   two documents with the same recursively key-sorted form print identically *)
Theorem C08_json_same_content :
  forall a b, nodup_keys a -> nodup_keys b -> canon a = canon b -> print_json a = print_json b.
Proof. exact print_json_same_content. Qed.
Print Assumptions C08_json_same_content.

(* any reordering of a mapping's entries - insertion order, dict/set iteration order, hash seed - is the same content *)
Theorem C08_reordering_is_same_content :
  forall kv kv', Permutation kv kv' -> NoDup (map fst kv) -> canon (PDict kv) = canon (PDict kv').
Proof. exact canon_perm. Qed.
Print Assumptions C08_reordering_is_same_content.

(* sorting by key is canonical: every permutation of distinct keys sorts to the same list *)
Theorem C08_sort_canonical :
  forall l l', Permutation l l' -> NoDup (map fst l) -> sort_kv l = sort_kv l'.
Proof. exact sort_kv_perm. Qed.
Print Assumptions C08_sort_canonical.

(* printing is invariant under canonicalisation (hence idempotent with respect to re-dumping re-read content) *)
Theorem C08_print_canon :
  forall v, nodup_keys v -> forall lvl, print_json_at lvl v = print_json_at lvl (canon v).
Proof. exact print_json_canon. Qed.
Print Assumptions C08_print_canon.

(* lists derived from unordered collections: an image cell is written as its images sorted by path, whatever the
   iteration order of the underlying set (distinct paths per cell, as the property quantifies) *)
From PM Require Import Model.Common Model.Images Proofs.SortProofs.

Theorem C08_cell_order_irrelevant :
  forall imgs imgs' ds,
  Permutation imgs imgs' ->
  mapM (fun im => ser_image (snd im)) imgs = Ok ds -> NoDup (map path_key ds) ->
  ser_cell imgs = ser_cell imgs'.
Proof. exact ser_cell_perm. Qed.
Print Assumptions C08_cell_order_irrelevant.

(* the composeinfo forest: the order in which the top-level variants were added (the iteration order of the container) is not
   content - the whole document is the same *)
From PM Require Import Model.ComposeInfo Proofs.CiRoundtrip.
Theorem C08_composeinfo_variant_order_irrelevant :
  forall x vs', Permutation (ci_variants x) vs' -> NoDup (map fst (ci_variants x)) ->
  dump_ci x = dump_ci {| ci_compose := ci_compose x; ci_release := ci_release x; ci_base_product := ci_base_product x; ci_variants := vs' |}.
Proof. exact dump_ci_perm. Qed.
Print Assumptions C08_composeinfo_variant_order_irrelevant.
