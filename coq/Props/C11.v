(* C11 - the variant forest stays consistent and every variant is findable *)
From PM Require Import Base.PyVal Base.Obj Model.Common Model.Variants Proofs.VariantsProofs.

(* a refused add leaves the whole object graph - parent pointers included - as it was *)
Theorem C11_add_refused_noop :
  forall h c v vid e, snd (variant_add h c v vid) = Err e -> fst (variant_add h c v vid) = h.
Proof. exact variant_add_refused_noop. Qed.
Print Assumptions C11_add_refused_noop.

(* an accepted add under a variant has passed the UID-alignment and parent-arch validators of the regenerated
   inventory with its parent pointer set to the container, and is not one of the container's ancestors *)
Theorem C11_add_accepted_child :
  forall h c v vid h', variant_add h c v vid = (h', Ok tt) -> c <> O ->
  let h1 := set_parent h v (Some c) in
  validate_variant h1 v = Ok tt /\
  custom_variant_uid (variant_ctx h1 v) = Ok tt /\ custom_parent_arch (variant_ctx h1 v) = Ok tt /\
  ~ In v (ancestors (length h1) h1 c).
Proof. exact variant_add_accepted_child. Qed.
Print Assumptions C11_add_accepted_child.

(* everything get_variants returns has the requested architecture and one of the requested types, at every depth *)
Theorem C11_get_variants_sound :
  forall fuel h arch types, mem_str (lit "self") types = false ->
  forall c recursive r, In r (get_variants fuel h c arch types recursive) ->
  type_matches h r types = true /\ arch_matches h r arch = true.
Proof. exact get_variants_sound. Qed.
Print Assumptions C11_get_variants_sound.

(* no filter: exactly the variants of the level *)
Theorem C11_get_variants_all_level :
  forall fuel h c r, In r (get_variants (S fuel) h c None [] false) <-> In r (map snd (vn_children (node h c))).
Proof. exact get_variants_all_level. Qed.
Print Assumptions C11_get_variants_all_level.

(* the edge invariant over ALL add histories: in every heap reachable from freshly created objects by any sequence of add calls
   (accepted or refused, in any order, re-adds and re-parenting included), each child that points back to its parent variant has
   the UID <parent UID>-<own id> and architectures within its parent's *)
From PM Require Import Proofs.ForestProofs.
Theorem C11_reach_edge_invariant :
  forall h ops, fresh_heap h -> no_pseudo h ->
  Inv (fold_left apply_vop ops h) /\ no_pseudo (fold_left apply_vop ops h).
Proof. exact reach_inv. Qed.
Print Assumptions C11_reach_edge_invariant.

Theorem C11_add_preserves_edge_invariant :
  forall h c v vid, no_pseudo h -> Inv h -> Inv (fst (variant_add h c v vid)).
Proof. exact variant_add_preserves_inv. Qed.
Print Assumptions C11_add_preserves_edge_invariant.

Theorem C11_get_variants_ordered_by_uid :
  forall fuel h c arch types recursive,
  Sorting.Sorted.StronglySorted (uid_le h) (get_variants fuel h c arch types recursive).
Proof. exact get_variants_sorted. Qed.
Print Assumptions C11_get_variants_ordered_by_uid.
