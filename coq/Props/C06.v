(* C06 - only objects meeting every documented field constraint can be written *)
From PM Require Import Base.PyVal Base.Obj Model.Common Gen.Validators.

(* the assertion vocabulary raises only TypeError / ValueError (given that explicit raises are of those classes) *)
Fixpoint raises_ok (e : vexpr) : bool :=
  match e with
  | VRaise TypeError | VRaise ValueError => true
  | VRaise _ => false
  | VIf _ body => forallb raises_ok body
  | _ => true
  end.

Lemma eval_cond_err o c e : eval_cond o c = Err e -> e = TypeError.
Proof.
  revert e; induction c as [f|f|r f|c IH|a IHa b IHb|a IHa b IHb]; intros e; cbn [eval_cond]; try discriminate.
  - destruct (getf o f); try discriminate; congruence.
  - destruct (eval_cond o c); cbn [bind]; [discriminate|]. intros H; injection H as <-. apply IH. reflexivity.
  - destruct (eval_cond o a) as [[]|ea]; cbn [bind]; [apply IHb|discriminate|]. intros H; injection H as <-. apply IHa. reflexivity.
  - destruct (eval_cond o a) as [[]|ea]; cbn [bind]; [discriminate|apply IHb|]. intros H; injection H as <-. apply IHa. reflexivity.
Qed.

Theorem vexpr_error_class o : forall e x, raises_ok e = true -> run_vexpr o e = Err x -> x = TypeError \/ x = ValueError.
Proof.
  fix IH 1. intros e x Hok H. destruct e as [f tags|f tbl|f|f rs|c body|ex|]; cbn [run_vexpr] in H.
  - destruct (existsb _ _); cbn in H; [discriminate|]. left. congruence.
  - destruct (py_in _ _); cbn in H; [discriminate|]. right. congruence.
  - destruct (truthy _); cbn in H; [discriminate|]. right. congruence.
  - destruct (getf o f); try (destruct rs; [right|left]; congruence).
    destruct (existsb _ _); cbn in H; [discriminate|]. right. congruence.
  - destruct (eval_cond o c) as [[]|ec] eqn:Ec; cbn [bind] in H; [|discriminate|left; injection H as <-; exact (eval_cond_err o c ec Ec)].
    cbn [raises_ok] in Hok. revert Hok H. induction body as [|b body IHb]; intros Hok H; [discriminate|].
    cbn [forallb] in Hok. apply andb_true_iff in Hok. destruct Hok as [Hb Hrest].
    destruct (run_vexpr o b) as [[]|eb] eqn:Eb; cbn [bind] in H.
    + exact (IHb Hrest H).
    + injection H as <-. exact (IH b eb Hb Eb).
  - destruct ex; cbn in Hok; try discriminate; injection H as <-; auto.
  - discriminate.
Qed.

(* every translated validator body of every class meets the side condition (obligation on the regenerated table) *)
Definition all_bodies_raise_ok : bool :=
  forallb (fun cls => forallb (fun m => match snd m with VBody b => forallb raises_ok b | VCustom _ => true end) (snd cls)) VALIDATORS.

Theorem C06_translated_validators_raise_type_or_value_error : all_bodies_raise_ok = true.
Proof. vm_compute. reflexivity. Qed.
Print Assumptions C06_translated_validators_raise_type_or_value_error.

Theorem C06_vexpr_error_class :
  forall o e x, raises_ok e = true -> run_vexpr o e = Err x -> x = TypeError \/ x = ValueError.
Proof. exact vexpr_error_class. Qed.
Print Assumptions C06_vexpr_error_class.

(* validate() = all flat rules of the translated validators + all hand-modelled validators *)
From PM Require Import Proofs.RuleSem Proofs.SpecRules.
Theorem C06_validate_iff_rules : forall ct ms o,
  run_validators ct ms o = Ok tt <->
  Forall (rule_holds o) (rules_of ms) /\
  Forall (fun q => match ct q with Some f => f o = Ok tt | None => False end) (customs_of ms).
Proof. exact run_validators_iff. Qed.
Print Assumptions C06_validate_iff_rules.

(* obligation on the regenerated validator table: class by class it flattens to exactly the documented rules *)
Theorem C06_regenerated_rules_are_the_documented_ones : rules_match_documentation = true.
Proof. vm_compute. reflexivity. Qed.
Print Assumptions C06_regenerated_rules_are_the_documented_ones.

(* milestone labels: a string matches one of the regenerated label patterns iff it is <name>-<int>.<int> for a name of the
   regenerated LABEL_NAMES table (the patterns are checked to be built from that table); header versions: <digits>.<digits> *)
From PM Require Import Base.Regex Proofs.LangProofs2 Gen.Regexes Gen.Tables.
Theorem C06_label_language :
  forall s, existsb (fun r => re_matches r s) re_labels = true <->
  exists name body, In name LABEL_NAMES /\ (s = body \/ s = body ++ [c_nl]) /\ DocLabel name body.
Proof. exact label_lang. Qed.
Print Assumptions C06_label_language.

Theorem C06_header_version_language :
  forall s, re_matches re_header_version s = true <-> exists body, (s = body \/ s = body ++ [c_nl]) /\ DocHeaderVersion body.
Proof. exact header_version_lang. Qed.
Print Assumptions C06_header_version_language.
