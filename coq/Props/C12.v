(* C12 - manifest builders file each entry exactly where the arguments say *)
From PM Require Import Base.PyVal Base.Regex Model.Nvra Model.Manifests Proofs.ManifestsProofs Gen.Tables.

(* Rpms.add refines one map update at the canonical key: the entry is filed under
   (variant, arch, canonical source-package NEVRA, canonical NEVRA) with the given path and
   category and a lower-cased signing key; every other entry is unchanged. *)
Theorem C12_rpms_add_refines :
  forall m v a n p sg c sr m',
  rpms_add m v a n p sg c sr = Ok m' ->
  exists nc nd sc,
    check_nevra n = Ok (nc, nd) /\ srpm_key nc sr = Ok sc /\ rpms_pre a n p c sr = true /\
    rpms_get m' v a sc nc = Some {| e_sigkey := option_map lower sg; e_path := p; e_category := c |} /\
    forall v' a' s' r', (v', a', s', r') <> (v, a, sc, nc) -> rpms_get m' v' a' s' r' = rpms_get m v' a' s' r'.
Proof. exact rpms_add_refines. Qed.
Print Assumptions C12_rpms_add_refines.

(* acceptance is exactly the conjunction of the documented preconditions, whatever the order of the checks *)
Theorem C12_rpms_add_accepts_iff :
  forall m v a n p sg c sr, (exists m', rpms_add m v a n p sg c sr = Ok m') <-> rpms_pre a n p c sr = true.
Proof. exact rpms_add_accepts_iff. Qed.
Print Assumptions C12_rpms_add_accepts_iff.

(* a refused call raises ValueError (the model returns no new state: nothing changes) *)
Theorem C12_rpms_add_refusal_class :
  forall m v a n p sg c sr e, rpms_add m v a n p sg c sr = Err e -> e = ValueError.
Proof. exact rpms_add_refusal_class. Qed.
Print Assumptions C12_rpms_add_refusal_class.

Theorem C12_modules_add_refines :
  forall m v a uid kt mp c rl m',
  modules_add m v a uid kt mp c rl = Ok m' ->
  exists uc name stream version context rpms,
    check_uid uid = Ok (uc, (name, stream, version, context)) /\ rl = Some rpms /\
    v <> [] /\ kt <> [] /\ mp <> [] /\ startswith mp [c_slash] = false /\
    mem_str a MODULES_ARCHES = true /\ mem_str c MODULES_CATEGORIES = true /\
    (exists e, modules_get m' v a uc = Some e /\
       md_uid e = uc /\ md_name e = name /\ md_stream e = stream /\ md_version e = version /\ md_context e = context /\
       md_koji_tag e = kt /\ assoc c (md_paths e) = Some mp /\
       (forall c', c' <> c -> assoc c' (md_paths e) = match modules_get m v a uc with Some o => assoc c' (md_paths o) | None => None end) /\
       md_rpms e = (match modules_get m v a uc with Some o => md_rpms o | None => [] end) ++ rpms) /\
    forall v' a' u', (v', a', u') <> (v, a, uc) -> modules_get m' v' a' u' = modules_get m v' a' u'.
Proof. exact modules_add_refines. Qed.
Print Assumptions C12_modules_add_refines.

Theorem C12_modules_add_refusal_class :
  forall m v a uid kt mp c rl e, modules_add m v a uid kt mp c rl = Err e -> e = ValueError.
Proof. exact modules_add_refusal_class. Qed.
Print Assumptions C12_modules_add_refusal_class.

Theorem C12_extra_add_refines :
  forall m v a p sz cs m',
  extra_add m v a p sz cs = Ok m' ->
  exists c, cs = Some c /\ v <> [] /\ p <> [] /\ startswith p [c_slash] = false /\ mem_str a EXTRA_ARCHES = true /\
    extra_get m' v a = extra_get m v a ++ [{| x_file := p; x_size := sz; x_checksums := c |}] /\
    forall v' a', (v', a') <> (v, a) -> extra_get m' v' a' = extra_get m v' a'.
Proof. exact extra_add_refines. Qed.
Print Assumptions C12_extra_add_refines.

Theorem C12_extra_add_refusal_class :
  forall m v a p sz cs e, extra_add m v a p sz cs = Err e -> e = ValueError \/ e = TypeError.
Proof. exact extra_add_refusal_class. Qed.
Print Assumptions C12_extra_add_refusal_class.

(* dump_for_tree strips the base path exactly on a path-component boundary *)
Theorem C12_relative_to_strips :
  forall root p, (forall r', root <> r' ++ [c_slash]) -> relative_to (root ++ c_slash :: p) root = p.
Proof. exact relative_to_strips. Qed.
Print Assumptions C12_relative_to_strips.

Theorem C12_relative_to_keeps :
  forall root path,
  startswith path (strip_right (fun c => N.eqb c c_slash) root ++ [c_slash]) = false -> relative_to path root = path.
Proof. exact relative_to_keeps. Qed.
Print Assumptions C12_relative_to_keeps.

(* every architecture name the library documents is in the regenerated table, so the builders accept it (rpms_add_accepts_iff
   and its siblings are stated against that table): a table edit that loses a documented name breaks this obligation *)
From PM Require Import Proofs.DocArches.
Theorem C12_documented_architectures_are_known :
  forall a, In a DOC_RPM_ARCHES -> mem_str a RPM_ARCHES = true.
Proof. exact documented_arch_is_known. Qed.
Print Assumptions C12_documented_architectures_are_known.
