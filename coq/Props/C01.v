(* C01 - composeinfo survives a write/read cycle unchanged *)
From PM Require Import Base.PyVal Base.Obj Model.Common Proofs.CommonProofs Gen.Tables.

(* header: what is written is read back as the current version with the proper type *)
Theorem C01_header_roundtrip :
  forall mtype rest,
  deser_header mtype (PDict ((lit "header", PDict [(lit "type", PStr mtype); (lit "version", current_version)]) :: rest)) =
  Ok (current_version, VERSION).
Proof. exact deser_header_ser. Qed.
Print Assumptions C01_header_roundtrip.

(* compose section: id, type, date, respin, label and final (only stored next to a label) *)
Theorem C01_compose_roundtrip :
  forall c j rest, compose_normal c -> ser_compose c = Ok j ->
  deser_compose VERSION (PDict ((lit "compose", j) :: rest)) = Ok c.
Proof. exact deser_compose_ser. Qed.
Print Assumptions C01_compose_roundtrip.

(* release / base product / variant forest: section theorems first, then (end of this file) the whole forest of any depth
   and the whole document: load_ci (dump_ci x) = Ok x with the path tables as written, and the second write is the same document. *)

(* the release and base-product sections *)
From PM Require Import Proofs.ReleaseRoundtrip Model.ComposeInfo.
Theorem C01_release_roundtrip :
  forall name version short ty lay internal sec j kv,
  let r := mk_release name version short ty lay internal in
  ser_release release_cls (F"release") r = Ok (sec, j) -> dget (PDict kv) (F"release") = Ok j ->
  deser_release VERSION (PDict kv) = Ok r.
Proof. exact release_roundtrip. Qed.
Print Assumptions C01_release_roundtrip.

Theorem C01_base_product_roundtrip :
  forall name version short ty sec j kv,
  let b := mk_base_product name version short ty in
  ser_release bp_cls (F"base_product") b = Ok (sec, j) -> dget (PDict kv) (F"base_product") = Ok j ->
  deser_base_product (PDict kv) = Ok b.
Proof. exact base_product_roundtrip. Qed.
Print Assumptions C01_base_product_roundtrip.

(* the per-architecture path tables of a variant *)
From PM Require Import Proofs.PathsRoundtrip.
Theorem C01_paths_roundtrip :
  forall arches archs paths, strs_of (sort_set arches) = Some archs ->
  deser_paths arches (ser_paths arches paths) = Ok (ser_paths_tab archs paths).
Proof. exact paths_roundtrip. Qed.
Print Assumptions C01_paths_roundtrip.

Theorem C01_written_paths_are_the_truthy_entries_of_the_variants_arches :
  forall archs paths name arch,
  get2 (ser_paths_tab archs paths) name arch =
  if existsb (fun p => str_eqb (fst p) arch && str_eqb (snd p) name) (pairs_of_arches archs) then path_val paths arch name else None.
Proof. exact ser_paths_tab_get. Qed.
Print Assumptions C01_written_paths_are_the_truthy_entries_of_the_variants_arches.

(* ---- the variant forest, any depth, and the whole document *)
From PM Require Import Model.Variants Proofs.KeySort Proofs.LoadValid Proofs.ForestFlat Proofs.ForestRoundtrip Proofs.CiRoundtrip.

(* the writer: the flat "variants" mapping holds exactly one entry per variant of the forest, keyed by its UID, carrying
   id/uid/name/type/sorted arches/(release)/paths/child ids, and every variant passed its validators under its parent *)
Theorem C01_forest_written_exactly :
  forall vs d, ser_variants vs = Ok (PDict d) -> NoDup (forest_uids (sort_keys vs)) ->
  d = flat_list (sort_keys vs) /\ children_valid None (sort_keys vs) /\ validate_container vs = Ok tt.
Proof. exact ser_variants_spec. Qed.
Print Assumptions C01_forest_written_exactly.

(* the reader on what the writer produced: the same forest - every field, the parent/child structure at every depth, the
   release of every layered-product variant - with each path table replaced by exactly what was written for it (wp) *)
Theorem C01_forest_roundtrip :
  forall vs d payload, forest_normal vs -> NoDup (forest_uids vs) ->
  ser_variants vs = Ok (PDict d) -> dget payload (F"variants") = Ok (PDict d) ->
  deser_variants VERSION payload = Ok (wp_list vs).
Proof. exact forest_roundtrip. Qed.
Print Assumptions C01_forest_roundtrip.

(* the whole document: header, compose, release, base product (when layered) and the forest *)
Theorem C01_document_roundtrip :
  forall x doc, ci_normal x -> NoDup (forest_uids (ci_variants x)) -> dump_ci x = Ok doc -> load_ci doc = Ok (wp_ci x).
Proof. exact ci_roundtrip. Qed.
Print Assumptions C01_document_roundtrip.

(* writing the re-read object gives the same document (hence the same bytes: print_json is a function of the document),
   and the re-read forest is in normal form again, so the cycle can be repeated *)
Theorem C01_second_write_identical :
  forall x, forest_all node_normal (ci_variants x) -> dump_ci (wp_ci x) = dump_ci x.
Proof. exact ci_second_write. Qed.
Print Assumptions C01_second_write_identical.

Theorem C01_reread_forest_is_normal : forall vs, forest_normal vs -> forest_normal (wp_list vs).
Proof. exact forest_normal_wp. Qed.
Print Assumptions C01_reread_forest_is_normal.

(* the hypotheses are satisfiable by a forest of depth 3 with a layered-product variant, a base product and path tables *)
Theorem C01_roundtrip_hypotheses_reachable :
  ci_normal ex_ci /\ NoDup (forest_uids (ci_variants ex_ci)) /\ exists doc, dump_ci ex_ci = Ok doc.
Proof. exact ci_roundtrip_nonvacuous. Qed.
Print Assumptions C01_roundtrip_hypotheses_reachable.

(* the hypotheses are decidable: Model/CiNormalB.v computes them, the correspondence evaluates that check on every generated
   document (the evidence reports how many generated cases the document theorem covers), and the check is sound *)
From PM Require Import Model.CiNormalB Proofs.CiNormalBProofs.
Theorem C01_executable_hypothesis_check_is_sound :
  forall x, ci_normalb x = true -> ci_distinct_uidsb x = true -> ci_normal x /\ NoDup (forest_uids (ci_variants x)).
Proof. exact ci_applicable_ok. Qed.
Print Assumptions C01_executable_hypothesis_check_is_sound.

Theorem C01_document_roundtrip_checked :
  forall x doc, ci_normalb x = true -> ci_distinct_uidsb x = true -> dump_ci x = Ok doc -> load_ci doc = Ok (wp_ci x).
Proof. exact ci_roundtrip_checked. Qed.
Print Assumptions C01_document_roundtrip_checked.
