(* C01 - composeinfo survives a write/read cycle unchanged *)
From PM Require Import Base.PyVal Base.Obj Model.Common Proofs.CommonProofs Gen.Tables.

(* header: what is written is read back as the current version with the proper type *)
Theorem C01_header_roundtrip :
  forall mtype rest,
  deser_header mtype (PDict ((lit "header", PDict [(lit "type", PStr mtype); (lit "version", current_version)]) :: rest)) =
  Ok (current_version, VERSION).
Proof. exact deser_header_ser. Qed.
Print Assumptions C01_header_roundtrip.

(* compose section: id, type, date, respin, label and final (only stored next to a label) *)
Theorem C01_compose_roundtrip :
  forall c j rest, compose_normal c -> ser_compose c = Ok j ->
  deser_compose VERSION (PDict ((lit "compose", j) :: rest)) = Ok c.
Proof. exact deser_compose_ser. Qed.
Print Assumptions C01_compose_roundtrip.

(* release / base product / variant forest: decided by the roundtrip_ci correspondence and the implementation-side
   oracle (every documented field, parent/child structure, paths, byte-identical second write). The Coq statement
   over whole forests - load_ci (dump_ci x) = Ok (norm x) by induction on the variant tree - is not yet proved (partial). *)
