(* C01 - composeinfo survives a write/read cycle unchanged *)
From PM Require Import Base.PyVal Base.Obj Model.Common Proofs.CommonProofs Gen.Tables.

(* header: what is written is read back as the current version with the proper type *)
Theorem C01_header_roundtrip :
  forall mtype rest,
  deser_header mtype (PDict ((lit "header", PDict [(lit "type", PStr mtype); (lit "version", current_version)]) :: rest)) =
  Ok (current_version, VERSION).
Proof. exact deser_header_ser. Qed.
Print Assumptions C01_header_roundtrip.

(* compose section: id, type, date, respin, label and final (only stored next to a label) *)
Theorem C01_compose_roundtrip :
  forall c j rest, compose_normal c -> ser_compose c = Ok j ->
  deser_compose VERSION (PDict ((lit "compose", j) :: rest)) = Ok c.
Proof. exact deser_compose_ser. Qed.
Print Assumptions C01_compose_roundtrip.

(* release / base product / variant forest: decided by the roundtrip_ci correspondence and the implementation-side
   oracle (every documented field, parent/child structure, paths, byte-identical second write). The Coq statement
   over whole forests - load_ci (dump_ci x) = Ok (norm x) by induction on the variant tree - is not yet proved (partial). *)

(* the release and base-product sections *)
From PM Require Import Proofs.ReleaseRoundtrip Model.ComposeInfo.
Theorem C01_release_roundtrip :
  forall name version short ty lay internal sec j kv,
  let r := mk_release name version short ty lay internal in
  ser_release release_cls (F"release") r = Ok (sec, j) -> dget (PDict kv) (F"release") = Ok j ->
  deser_release VERSION (PDict kv) = Ok r.
Proof. exact release_roundtrip. Qed.
Print Assumptions C01_release_roundtrip.

Theorem C01_base_product_roundtrip :
  forall name version short ty sec j kv,
  let b := mk_base_product name version short ty in
  ser_release bp_cls (F"base_product") b = Ok (sec, j) -> dget (PDict kv) (F"base_product") = Ok j ->
  deser_base_product (PDict kv) = Ok b.
Proof. exact base_product_roundtrip. Qed.
Print Assumptions C01_base_product_roundtrip.

(* the per-architecture path tables of a variant *)
From PM Require Import Proofs.PathsRoundtrip.
Theorem C01_paths_roundtrip :
  forall arches archs paths, strs_of (sort_set arches) = Some archs ->
  deser_paths arches (ser_paths arches paths) = Ok (ser_paths_tab archs paths).
Proof. exact paths_roundtrip. Qed.
Print Assumptions C01_paths_roundtrip.

Theorem C01_written_paths_are_the_truthy_entries_of_the_variants_arches :
  forall archs paths name arch,
  get2 (ser_paths_tab archs paths) name arch =
  if existsb (fun p => str_eqb (fst p) arch && str_eqb (snd p) name) (pairs_of_arches archs) then path_val paths arch name else None.
Proof. exact ser_paths_tab_get. Qed.
Print Assumptions C01_written_paths_are_the_truthy_entries_of_the_variants_arches.
