(* C03 - rpms, modules and extra-files manifests survive a write/read cycle unchanged *)
From PM Require Import Base.PyVal Base.Obj Base.Json Model.Common Model.Manifests Model.ManifestDocs
     Proofs.CommonProofs Proofs.ManifestDocsProofs Proofs.ManifestsProofs.

(* whatever mapping the manifest holds (in particular any mapping built by add calls, whose
   layout C12 characterises) is read back exactly, with the compose section intact *)
Theorem C03_rpms_roundtrip :
  forall c p d, compose_normal c -> dump_rpms c p = Ok d -> load_rpms d = Ok (c, p).
Proof. exact rpms_doc_roundtrip. Qed.
Print Assumptions C03_rpms_roundtrip.

Theorem C03_modules_roundtrip :
  forall c p d, compose_normal c -> dump_modules c p = Ok d -> load_modules d = Ok (c, p).
Proof. exact modules_doc_roundtrip. Qed.
Print Assumptions C03_modules_roundtrip.

Theorem C03_extra_roundtrip :
  forall c p d, compose_normal c -> dump_extra c p = Ok d -> load_extra d = Ok (c, p).
Proof. exact extra_doc_roundtrip. Qed.
Print Assumptions C03_extra_roundtrip.

(* writing the re-read manifest reproduces the document, hence the bytes *)
Theorem C03_rpms_second_dump :
  forall c p d c' p', compose_normal c -> dump_rpms c p = Ok d -> load_rpms d = Ok (c', p') ->
  dump_rpms c' p' = Ok d /\ (forall d', dump_rpms c' p' = Ok d' -> print_json d' = print_json d).
Proof. exact rpms_second_dump. Qed.
Print Assumptions C03_rpms_second_dump.

(* instance for manifests produced by add histories: the typed mapping built by Rpms.add is what comes back *)
Theorem C03_rpms_built_by_add :
  forall c (m : rpms_t) d, compose_normal c -> dump_rpms c (rpms_json m) = Ok d -> load_rpms d = Ok (c, rpms_json m).
Proof. intros c m d. exact (rpms_doc_roundtrip c (rpms_json m) d). Qed.
Print Assumptions C03_rpms_built_by_add.
