(* C14 - release ids round-trip; create_release_id refuses precisely what the predicates refuse *)
From PM Require Import Base.PyVal Base.Regex Model.ReleaseId Proofs.ReleaseIdProofs Gen.Tables.

(* For every short/version/type create_release_id accepts (type among the known release
   types, version free of '-' and '@'), with or without a base product, outside the
   inherently ambiguous class K2: parse_release_id returns exactly those parts. *)
Theorem C14_roundtrip :
  forall s v t bp id,
  In t RELEASE_TYPES -> ~ In c_dash v -> ~ In c_at v -> ~ K2 s v t ->
  match bp with
  | None => True
  | Some (bs, bv, bt) => In bt RELEASE_TYPES /\ ~ In c_dash bv /\ ~ In c_at bv /\ ~ K2 bs bv bt
  end ->
  create_release_id s v t bp = Ok id ->
  parse_release_id id = Ok ((s, v, t), bp).
Proof. exact relid_roundtrip. Qed.
Print Assumptions C14_roundtrip.

(* The excluded class is inherent in the id format: two accepted tuples with known types, one id. *)
Theorem C14_ambiguous :
  exists id, create_release_id (lit "a-b") (lit "eus") (lit "ga") None = Ok id /\
             create_release_id (lit "a") (lit "b") (lit "eus") None = Ok id /\
             In (lit "eus") RELEASE_TYPES /\ In (lit "ga") RELEASE_TYPES.
Proof. exact relid_ambiguous. Qed.
Print Assumptions C14_ambiguous.

(* create_release_id refuses precisely what the three predicates refuse. *)
Theorem C14_create_refuses_iff :
  forall s v t,
  create_part s v t = Err ValueError <-> valid_short s = false \/ valid_version v = false \/ valid_type t = false.
Proof. exact create_part_refuses_iff. Qed.
Print Assumptions C14_create_refuses_iff.

(* The three predicates accept exactly the documented languages (up to Python's '$' also matching before a final newline):
   short names and types: a lowercase letter followed by lowercase alphanumerics in non-empty dash-separated segments;
   versions: dot-separated decimal integers, or any non-empty one-line string not starting with a digit.
   The predicates are the patterns regenerated from the source, run by the matcher proved sound and complete. *)
From PM Require Import Proofs.LangProofs.

Theorem C14_short_lang :
  forall s, valid_short s = true <-> exists body, (s = body \/ s = body ++ [c_nl]) /\ DocShort body.
Proof. exact valid_short_lang. Qed.
Print Assumptions C14_short_lang.

Theorem C14_type_lang :
  forall s, valid_type s = true <-> exists body, (s = body \/ s = body ++ [c_nl]) /\ DocShort body.
Proof. exact valid_type_lang. Qed.
Print Assumptions C14_type_lang.

Theorem C14_version_lang :
  forall s, valid_version s = true <-> exists body, (s = body \/ s = body ++ [c_nl]) /\ DocVersion body.
Proof. exact valid_version_lang. Qed.
Print Assumptions C14_version_lang.
