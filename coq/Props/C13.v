(* C13 - RPM name-epoch:version-release.arch strings are parsed back to their parts *)
From PM Require Import Base.PyVal Model.Nvra Proofs.NvraProofs Proofs.C13Proofs Gen.Tables.

(* For every legal name, optional epoch, version, release and table arch, with any
   directory prefix and with or without ".rpm": parsing returns exactly the parts,
   epoch 0 when none is given. *)
Theorem C13_roundtrip :
  forall dir name eo version release arch sfx,
    legal_dir dir -> legal_sfx sfx ->
    forallb name_char name = true -> forallb vr_char version = true -> forallb vr_char release = true ->
    In arch RPM_ARCHES ->
    parse_nvra (dir ++ fmt name eo version release arch ++ sfx) =
    Ok {| n_name := name; n_epoch := epoch_of eo; n_version := version; n_release := release; n_arch := arch |}.
Proof. exact c13_roundtrip. Qed.
Print Assumptions C13_roundtrip.

(* Re-formatting the parsed parts canonically and parsing again is a fixed point. *)
Theorem C13_fixpoint : forall p, legal_parts p -> parse_nvra (format_nevra p) = Ok p.
Proof. exact c13_fixpoint. Qed.
Print Assumptions C13_fixpoint.

(* The hypothesis-free general form the two above are instances of. *)
Theorem C13_roundtrip_gen :
  forall dir name eo version release arch sfx,
  (dir = [] \/ exists d, dir = d ++ [c_slash]) -> ~ In c_nl dir ->
  (sfx = [] \/ sfx = dot_rpm) ->
  ~ In c_slash name -> ~ In c_nl name ->
  ~ In c_dash version -> ~ In c_slash version -> ~ In c_nl version -> ~ In c_colon version ->
  ~ In c_dash release -> ~ In c_slash release -> ~ In c_nl release ->
  ~ In c_dot arch -> ~ In c_slash arch -> ~ In c_nl arch -> arch <> lit "rpm" ->
  parse_nvra (dir ++ fmt name eo version release arch ++ sfx) =
  Ok {| n_name := name; n_epoch := epoch_of eo; n_version := version; n_release := release; n_arch := arch |}.
Proof. exact nvra_roundtrip_gen. Qed.
Print Assumptions C13_roundtrip_gen.
