(* C05 - older format versions are upgraded faithfully and idempotently *)
From PM Require Import Base.PyVal Base.Obj Model.Common Proofs.CommonProofs Proofs.ManifestsProofs Gen.Tables.

(* whatever version a document was read from, what is written carries the current version and the proper type *)
Theorem C05_written_header_is_current :
  forall mtype, ser_header mtype = Ok (PDict [(lit "type", PStr mtype); (lit "version", current_version)]).
Proof. exact ser_header_ok. Qed.
Print Assumptions C05_written_header_is_current.

(* a written header is read back as the current version: re-loading an upgraded file takes the current-format branches,
   so conversion happens exactly once *)
Theorem C05_upgraded_header_reads_as_current :
  forall mtype rest,
  deser_header mtype (PDict ((lit "header", PDict [(lit "type", PStr mtype); (lit "version", current_version)]) :: rest)) =
  Ok (current_version, VERSION).
Proof. exact deser_header_ser. Qed.
Print Assumptions C05_upgraded_header_reads_as_current.

(* the legacy compose reader (format < 0.3) takes date, type and respin from the id through the compose-id decoder of C15 *)
Theorem C05_legacy_compose_uses_id_decoder :
  forall payload sec id label0 ty c,
  dget payload (lit "compose") = Ok sec -> dget sec (lit "id") = Ok (PStr id) ->
  dget_default sec (lit "label") PNone = Ok label0 -> dget sec (lit "type") = Ok ty ->
  deser_compose (0, 2)%N payload = Ok c ->
  exists r, ComposeId.get_date_type_respin id = Ok r /\
            getf c (lit "date") = fst (fst (p_dtr r)) /\ getf c (lit "type") = snd (fst (p_dtr r)) /\ getf c (lit "respin") = snd (p_dtr r).
Proof.
  intros payload sec id label0 ty c H1 H2 H3 H4 H. unfold deser_compose in H.
  rewrite H1 in H. cbn [bind] in H. rewrite H2 in H. cbn [bind] in H. rewrite H3 in H. cbn [bind] in H. rewrite H4 in H. cbn [bind] in H.
  change (vt_ltb (0, 2)%N (0, 3)%N) with true in H. cbv iota in H.
  destruct (ComposeId.get_date_type_respin id) as [r|e] eqn:E; cbn [bind] in H; [|discriminate].
  exists r. split; [reflexivity|].
  destruct (p_dtr r) as [[date ty'] respin] eqn:Ep.
  inv_bind H as final0 G. 
  match type of H with (check ?v; _) = _ => destruct v as [[]|e] eqn:Hv; cbn [bind] in H; [|discriminate] end.
  injection H as <-. cbn. repeat split; reflexivity.
Qed.
Print Assumptions C05_legacy_compose_uses_id_decoder.

(* composeinfo, whole document: whatever document (of whatever version) an object was loaded from, once it is written the
   re-loaded object is the same (path tables as written) and the second write is the same document - conversion happens once.
   Hypotheses as in C01: the loaded object is in the reader's normal form and its UIDs are pairwise distinct. *)
From PM Require Import Model.ComposeInfo Proofs.ForestFlat Proofs.ForestRoundtrip Proofs.CiRoundtrip.
Theorem C05_composeinfo_conversion_happens_once :
  forall doc x doc', load_ci doc = Ok x -> ci_normal x -> NoDup (forest_uids (ci_variants x)) -> dump_ci x = Ok doc' ->
  load_ci doc' = Ok (wp_ci x) /\ dump_ci (wp_ci x) = Ok doc'.
Proof.
  intros doc x doc' _ Hn Hd Hw. split; [exact (ci_roundtrip x doc' Hn Hd Hw)|].
  rewrite ci_second_write; [exact Hw|]. destruct Hn as (_ & _ & (Hf & _)). exact Hf.
Qed.
Print Assumptions C05_composeinfo_conversion_happens_once.
