(* C19 - validation and parsing time grows polynomially with input length *)
From PM Require Import Base.Regex Base.RegexCost Proofs.RegexCostProofs Proofs.RegexSteps Gen.Regexes.
Open Scope nat_scope.

(* The step-counting matcher is the verified matcher (same result on every input)... *)
Theorem C19_same_matcher :
  forall r s, snd (ms r s 0 [] (fun _ _ c => (0, Some c))) = re_match r s.
Proof. exact match_steps_same_result. Qed.
Print Assumptions C19_same_matcher.

(* ...and for every expression meeting the syntactic criterion [safe], the number of
   steps of a match attempt on ANY string s is at most c * (|s|+1)^d with (c,d) = WP r. *)
Theorem C19_steps_poly :
  forall r s, safe r = true -> match_steps r s <= evalP (WP r) (length s).
Proof. exact match_steps_poly. Qed.
Print Assumptions C19_steps_poly.

(* The worst case (every alternative explored) obeys the same bound, and the number of
   points at which an expression can hand over to its continuation is polynomial too. *)
Theorem C19_work_poly :
  forall r, safe r = true -> forall s, work r s <= evalP (WP r) (length s).
Proof. exact work_bound. Qed.
Print Assumptions C19_work_poly.

Theorem C19_exits_poly :
  forall r, safe r = true -> forall s, length (exits r s) <= evalP (EP r) (length s).
Proof. exact exits_bound. Qed.
Print Assumptions C19_exits_poly.

(* Every regular expression the library compiles or matches (regenerated from the
   source on this run: module-level patterns, literals reaching re.* and the field
   validators, patterns captured at run time) meets the criterion. *)
Theorem C19_all_safe : forallb (fun p => safe (snd p)) all_regexes = true.
Proof. vm_compute. reflexivity. Qed.
Print Assumptions C19_all_safe.
