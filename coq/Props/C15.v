(* C15 - compose IDs encode date, type and respin recoverably *)
From PM Require Import Base.PyVal Base.Regex Model.ComposeId Proofs.ComposeIdProofs Gen.Tables.

(* the created id starts with release short, version and (unless ga) type *)
Theorem C15_prefix :
  forall a id, create_compose_id a = Ok id ->
  startswith id (r_short a ++ c_dash :: r_version a ++ rel_type_suffix (r_type a)) = true.
Proof. exact composeid_prefix. Qed.
Print Assumptions C15_prefix.

(* ... passes the library's own compose-id validation (the regenerated pattern) *)
Theorem C15_self_valid :
  forall a id, create_compose_id a = Ok id ->
  ~ In c_nl (cid_prefix a) -> length (c_date a) = 8%nat -> forallb is_digit (c_date a) = true ->
  compose_id_valid id = true.
Proof. exact composeid_self_valid. Qed.
Print Assumptions C15_self_valid.

(* ... and decodes to exactly the date, compose type and respin it was created from,
   for every release / base product / variant shape, whenever the respin has fewer than 8 digits *)
Theorem C15_decode :
  forall a id, create_compose_id a = Ok id ->
  ~ In c_nl (cid_prefix a) -> length (c_date a) = 8%nat -> forallb is_digit (c_date a) = true ->
  (c_respin a < 10 ^ 7)%N ->
  get_date_type_respin id = Ok (Some (c_date a, c_type a, c_respin a)).
Proof. exact composeid_decode. Qed.
Print Assumptions C15_decode.

(* the property as stated (respins below 10^8) is FALSE of the code: finding K1 *)
Theorem C15_decode_refuted :
  exists a id, create_compose_id a = Ok id /\ (c_respin a < 10 ^ 8)%N /\ length (c_date a) = 8%nat /\
               get_date_type_respin id <> Ok (Some (c_date a, c_type a, c_respin a)).
Proof. exact composeid_decode_refuted. Qed.
Print Assumptions C15_decode_refuted.

(* every compose type can be encoded, and the encoder and decoder tables agree *)
Theorem C15_tables_agree :
  (forall t, In t COMPOSE_TYPES -> exists sfx, compose_type_suffix t = Ok sfx) /\
  (forall t sfx, assoc t COMPOSE_TYPE_SUFFIX_FN = Some (Some sfx) ->
     (sfx = [] /\ t = production) \/
     (exists lw, sfx = c_dot :: lw /\ lw <> [] /\ forallb is_lower lw = true /\ assoc lw COMPOSE_TYPE_SUFFIXES = Some t)).
Proof. exact (conj all_types_encodable enc_dec_entry). Qed.
Print Assumptions C15_tables_agree.

(* the decoder table is exactly the documented suffix set {n, nightly, t, test, ci, d} *)
Theorem C15_suffix_table :
  forallb (fun p => match assoc (fst p) COMPOSE_TYPE_SUFFIXES with Some t => str_eqb t (snd p) | None => false end) doc_suffixes = true /\
  forallb (fun p => mem_str (fst p) (map fst doc_suffixes)) COMPOSE_TYPE_SUFFIXES = true.
Proof. exact suffix_table_complete. Qed.
Print Assumptions C15_suffix_table.

(* an unknown suffix is rejected *)
Theorem C15_unknown_suffix :
  forall pre date lw rest,
  ~ In c_nl pre -> length date = 8%nat -> forallb is_digit date = true ->
  lw <> [] -> forallb is_lower lw = true ->
  (match rest with [] => True | y :: _ => is_lower y = false end) -> ~ In c_nl rest ->
  find_last (tl (date ++ c_dot :: lw ++ rest)) = None ->
  assoc lw COMPOSE_TYPE_SUFFIXES = None ->
  get_date_type_respin (pre ++ date ++ c_dot :: lw ++ rest) = Err ValueError.
Proof. exact decode_unknown_suffix. Qed.
Print Assumptions C15_unknown_suffix.
