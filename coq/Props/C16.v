(* C16 - checksums recorded in metadata are the true digests of the right files *)
From PM Require Import Base.PyVal Base.Obj Model.Common Model.Checksums Model.TreeInfo Proofs.ChecksumsProofs.

(* feeding a hash object chunk by chunk - any chunk sizes, any number of chunks, empty ones included - gives the state
   of feeding the whole content at once (the streaming law of hashlib objects is the hypothesis, visible in the statement) *)
Theorem C16_digest_chunking :
  forall (state : Type) (init : state) (update : state -> str -> state),
  (forall h a b, update (update h a) b = update h (a ++ b)) -> (forall h, update h [] = h) ->
  forall chunks, feed state init update chunks = update init (concat chunks).
Proof. exact digest_chunking. Qed.
Print Assumptions C16_digest_chunking.

(* the read loop visits the whole file: the chunks concatenate to the content, for every chunk size *)
Theorem C16_chunks_cover_file :
  forall n, n <> O -> forall fuel (s : str), (length s <= fuel)%nat -> concat (chunks_of fuel n s) = s.
Proof. exact chunks_concat. Qed.
Print Assumptions C16_chunks_cover_file.

Theorem C16_add_refuses_absolute : forall cs p ty v, checksums_add cs (c_slash :: p) ty v = Err ValueError.
Proof. exact checksums_add_refuses_absolute. Qed.
Print Assumptions C16_add_refuses_absolute.

Theorem C16_add_records_under_normpath :
  forall cs p ty v cs', checksums_add cs p ty v = Ok cs' ->
  assoc (normpath p) cs' = Some (ty, v) /\ forall q, q <> normpath p -> assoc q cs' = assoc q cs.
Proof. exact checksums_add_records. Qed.
Print Assumptions C16_add_records_under_normpath.

(* every [checksums] value is typed on its own: 'type:value' is split, a bare digest is typed by its length
   (32/40/64), anything else is rejected - no entry can inherit another entry's type or value *)
Theorem C16_typed_bare :
  forall v, ~ In c_colon v ->
  typed_checksum v =
    if Nat.eqb (length v) 32 then Ok (PStr (lit "md5"), PStr v)
    else if Nat.eqb (length v) 40 then Ok (PStr (lit "sha1"), PStr v)
    else if Nat.eqb (length v) 64 then Ok (PStr (lit "sha256"), PStr v)
    else Err ValueError.
Proof. exact typed_checksum_bare. Qed.
Print Assumptions C16_typed_bare.

(* an image's recorded checksum is never silently replaced *)
Theorem C16_add_checksum_stable :
  forall cs ty value cs' r t v, image_add_checksum cs ty value = Ok (cs', r) -> assoc t cs = Some v -> assoc t cs' = Some v.
Proof. exact add_checksum_stable. Qed.
Print Assumptions C16_add_checksum_stable.

Theorem C16_add_checksum_conflict :
  forall cs ty value ex, assoc ty cs = Some ex -> truthy value = true -> py_eq value ex = false ->
  image_add_checksum cs ty value = Err ValueError.
Proof. exact add_checksum_conflict. Qed.
Print Assumptions C16_add_checksum_conflict.

(* after writing and reading a treeinfo, every path maps to exactly the algorithm and value given for it in the file, and no
   path carries a checksum that was written for another: the whole-section statement over the writer's table *)
From PM Require Import Base.Ini Model.TreeInfo Proofs.TreeInfoChecksums.
Theorem C16_written_checksums_are_read_back_per_path :
  forall x mv t x', ser_ti x mv = Ok t -> deser_ti t = Ok x' -> NoDup (map fst (ti_checksums x)) ->
  (forall c, In c (ti_checksums x) -> exists tc, typed_checksum (ck_text c) = Ok tc /\ assoc (fst c) (ti_checksums x') = Some tc) /\
  (forall p, ~ In p (map fst (ti_checksums x)) -> assoc p (ti_checksums x') = None).
Proof. exact checksums_read_back. Qed.
Print Assumptions C16_written_checksums_are_read_back_per_path.
