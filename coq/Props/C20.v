(* C20 - a compose directory is resolved to the same metadata in every supported layout *)
From PM Require Import Base.PyVal Model.ComposeDir Proofs.ComposeDirProofs.

Theorem C20_prefers_compose :
  forall exists_ listdir p,
  exists_ (path_join (path_join p (lit "compose")) (lit "metadata/composeinfo.json")) = true ->
  resolve exists_ listdir p = path_join p (lit "compose").
Proof. exact resolve_prefers_compose. Qed.
Print Assumptions C20_prefers_compose.

Theorem C20_direct :
  forall exists_ listdir p,
  exists_ (path_join (path_join p (lit "compose")) (lit "metadata/composeinfo.json")) = false ->
  (forall i, In i (listdir p) -> exists_ (path_join (path_join p i) (lit "metadata")) = false) ->
  resolve exists_ listdir p = p.
Proof. exact resolve_direct. Qed.
Print Assumptions C20_direct.

Theorem C20_legacy :
  forall exists_ listdir p i,
  exists_ (path_join (path_join p (lit "compose")) (lit "metadata/composeinfo.json")) = false ->
  is_url p = false -> exists_ p = true ->
  In i (listdir p) -> exists_ (path_join (path_join p i) (lit "metadata")) = true ->
  (forall j, In j (listdir p) -> exists_ (path_join (path_join p j) (lit "metadata")) = true -> j = i) ->
  resolve exists_ listdir p = path_join p i.
Proof. exact resolve_legacy. Qed.
Print Assumptions C20_legacy.

Theorem C20_trailing_slash :
  forall a b, a <> [] -> endswith a [c_slash] = false -> path_join (a ++ [c_slash]) b = path_join a b.
Proof. exact path_join_trailing_slash. Qed.
Print Assumptions C20_trailing_slash.

Theorem C20_current_name_first :
  forall exists_ cp cur legacy, exists_ (path_join cp cur) = true -> find_file exists_ cp [cur; legacy] = Ok (path_join cp cur).
Proof. exact find_current_name. Qed.
Print Assumptions C20_current_name_first.

Theorem C20_legacy_name_fallback :
  forall exists_ cp cur legacy, exists_ (path_join cp cur) = false -> exists_ (path_join cp legacy) = true ->
  find_file exists_ cp [cur; legacy] = Ok (path_join cp legacy).
Proof. exact find_legacy_name. Qed.
Print Assumptions C20_legacy_name_fallback.

Theorem C20_missing_is_runtimeerror :
  forall exists_ cp names, (forall n, In n names -> exists_ (path_join cp n) = false) -> find_file exists_ cp names = Err RuntimeError.
Proof. exact find_missing. Qed.
Print Assumptions C20_missing_is_runtimeerror.

Theorem C20_loaded_once : forall A (o : A) load, access (Some o) load = (Some o, Ok o).
Proof. exact @access_cached. Qed.
Print Assumptions C20_loaded_once.

Theorem C20_undecodable_is_runtimeerror :
  forall A e, In e [ValueError; KeyError; TypeError; AttributeError] -> @wrap_load A (Err e) = Err RuntimeError.
Proof. exact @wrap_valueerror. Qed.
Print Assumptions C20_undecodable_is_runtimeerror.
