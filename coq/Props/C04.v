(* C04 - treeinfo and discinfo survive a write/read cycle unchanged *)
From PM Require Import Base.PyVal Base.Obj Base.Ini Model.Common Model.TreeInfo.

(* legacy bare digests are typed by length, "type:value" entries are split, anything else is rejected (used by C16 too) *)
Theorem C04_typed_checksum_roundtrip :
  forall t v, ~ In c_colon t -> ~ In c_colon v ->
  typed_checksum (t ++ c_colon :: v) = Ok (PStr t, PStr v).
Proof.
  intros t v Ht Hv. unfold typed_checksum. rewrite memc_app. cbn [memc]. rewrite N.eqb_refl, orb_true_r.
  unfold split.
  assert (H1 : forall acc x, ~ In c_colon x -> split_acc c_colon acc x = [rev acc ++ x]).
  { intros acc x; revert acc; induction x as [|h x IH]; intros acc Hx; cbn [split_acc].
    - rewrite app_nil_r. reflexivity.
    - destruct (N.eqb_spec h c_colon) as [->|Hn]; [exfalso; apply Hx; left; reflexivity|].
      rewrite IH; [|intros H; apply Hx; right; exact H]. cbn [rev]. rewrite <- app_assoc. reflexivity. }
  assert (H2 : forall acc x, ~ In c_colon x -> split_acc c_colon acc (x ++ c_colon :: v) = (rev acc ++ x) :: split_acc c_colon [] v).
  { intros acc x; revert acc; induction x as [|h x IH]; intros acc Hx; cbn [split_acc app].
    - rewrite N.eqb_refl, app_nil_r. reflexivity.
    - destruct (N.eqb_spec h c_colon) as [->|Hn]; [exfalso; apply Hx; left; reflexivity|].
      rewrite IH; [|intros H; apply Hx; right; exact H]. cbn [rev]. rewrite <- app_assoc. reflexivity. }
  rewrite (H2 [] t Ht), (H1 [] v Hv). reflexivity.
Qed.
Print Assumptions C04_typed_checksum_roundtrip.

(* the tree-level statement - deser_ti (table of (print_ini (ser_ti x))) = Ok (norm x) - is decided by the docs_treeinfo
   correspondence (model writer vs real writer byte for byte; model reader vs real reader on the section table the real
   parser produced) and the implementation-side oracle; it is not yet a Coq theorem (partial). *)

(* writer side of the tree-level round trip: the scalar facts of [release] and [tree] are in the written table at their documented
   places, and no later section writer (variants, checksums, images, stage2, media, general) touches those sections *)
From PM Require Import Proofs.TreeInfoWriter Base.Ini Model.TreeInfo.
Theorem C04_written_release_and_tree :
  forall x mv t, ser_ti x mv = Ok t ->
  exists name_s ver_s short_s arch_s ts_s,
    getf (ti_release x) (F"name") = PStr name_s /\ getf (ti_release x) (F"version") = PStr ver_s /\
    getf (ti_release x) (F"short") = PStr short_s /\ getf (ti_tree x) (F"arch") = PStr arch_s /\
    py_str_num (getf (ti_tree x) (F"build_timestamp")) = Ok ts_s /\
    ini_get t (F"release") (F"name") = Ok name_s /\ ini_get t (F"release") (F"version") = Ok ver_s /\
    ini_get t (F"release") (F"short") = Ok short_s /\
    ini_get t (F"tree") (F"arch") = Ok arch_s /\ ini_get t (F"tree") (F"platforms") = Ok (platforms_str (ti_tree x)) /\
    ini_get t (F"tree") (F"build_timestamp") = Ok ts_s.
Proof. exact written_release_and_tree. Qed.
Print Assumptions C04_written_release_and_tree.

Theorem C04_variant_writer_stays_in_its_sections :
  forall tv parent p p', ser_tvar parent tv p = Ok p' -> only_in is_variant_section p p'.
Proof. exact ser_tvar_only. Qed.
Print Assumptions C04_variant_writer_stays_in_its_sections.

(* reader on the writer's table: the header the writer put there is the current one, and WHATEVER the reader returns for a
   table the writer produced carries the written release name/short/version/is_layered and the tree's arch, platform set and
   (integer part of the) build timestamp. (That the reader does return something, and the variant/image/checksum sections,
   are decided by the docs_treeinfo correspondence.) *)
From PM Require Import Proofs.TreeInfoReadBack Gen.Tables.
Theorem C04_release_and_tree_read_back :
  forall x mv t x', ser_ti x mv = Ok t -> deser_ti t = Ok x' ->
  getf (ti_release x') (F"name") = getf (ti_release x) (F"name") /\
  getf (ti_release x') (F"short") = getf (ti_release x) (F"short") /\
  getf (ti_release x') (F"version") = getf (ti_release x) (F"version") /\
  getf (ti_release x') (F"is_layered") = PBool (truthy (getf (ti_release x) (F"is_layered"))) /\
  getf (ti_tree x') (F"arch") = getf (ti_tree x) (F"arch") /\
  getf (ti_tree x') (F"platforms") = PList (sort_set (map PStr (split_nonempty (platforms_str (ti_tree x))))) /\
  exists ts_s, py_str_num (getf (ti_tree x) (F"build_timestamp")) = Ok ts_s /\
               float_text_to_int ts_s = Ok (getf (ti_tree x') (F"build_timestamp")).
Proof. exact release_and_tree_read_back. Qed.
Print Assumptions C04_release_and_tree_read_back.

Theorem C04_written_header_is_current_and_layered_flag :
  forall x mv t, ser_ti x mv = Ok t ->
  ini_get t (F"header") (F"version") = Ok (show_version VERSION) /\ ini_get t (F"header") (F"type") = Ok ti_mtype /\
  (if truthy (getf (ti_release x) (F"is_layered")) then ini_get t (F"release") (F"is_layered") = Ok (F"true")
   else has_option t (F"release") (F"is_layered") = false).
Proof. exact written_header_and_layered. Qed.
Print Assumptions C04_written_header_is_current_and_layered_flag.

(* non-vacuity: the example tree of the writer theorem is read back by the model reader *)
Example C04_read_back_nonvacuous : exists t x', ser_ti ex_ti None = Ok t /\ deser_ti t = Ok x'.
Proof. eexists. eexists. split; vm_compute; reflexivity. Qed.

(* [stage2]: whatever the reader returns for a table the writer produced carries the written stage2 images (a falsy entry is not
   written and is read as None); nothing before [stage2] creates that section and nothing after it (media, general) touches it *)
From PM Require Import Proofs.TreeInfoStage2.
Theorem C04_stage2_read_back :
  forall x mv t x', ser_ti x mv = Ok t -> deser_ti t = Ok x' ->
  let m := getf (ti_stage2 x) (F"mainimage") in
  let i := getf (ti_stage2 x) (F"instimage") in
  getf (ti_stage2 x') (F"mainimage") = (if truthy m then m else PNone) /\
  getf (ti_stage2 x') (F"instimage") = (if truthy i then i else PNone).
Proof. exact stage2_read_back. Qed.
Print Assumptions C04_stage2_read_back.

(* an integer build timestamp of ANY size is read back exactly (the unchanged library went through float() here: defect D15) *)
Theorem C04_integer_timestamp_read_back :
  forall x mv t x' z, ser_ti x mv = Ok t -> deser_ti t = Ok x' -> getf (ti_tree x) (F"build_timestamp") = PInt z ->
  getf (ti_tree x') (F"build_timestamp") = PInt z.
Proof. exact integer_timestamp_read_back. Qed.
Print Assumptions C04_integer_timestamp_read_back.

(* [media]: absent when both numbers are falsy (read back as None/None), else both numbers are read back as the integers written *)
Theorem C04_media_read_back :
  forall x mv t x', ser_ti x mv = Ok t -> deser_ti t = Ok x' ->
  let d := getf (ti_media x) (F"discnum") in
  let n := getf (ti_media x) (F"totaldiscs") in
  if negb (truthy d) && negb (truthy n)
  then ti_media x' = [(F"discnum", PNone); (F"totaldiscs", PNone)]
  else exists zd zn, py_int d = Ok (PInt zd) /\ py_int n = Ok (PInt zn) /\
                     ti_media x' = [(F"discnum", PInt zd); (F"totaldiscs", PInt zn)].
Proof. exact media_read_back. Qed.
Print Assumptions C04_media_read_back.

(* [checksums]: every path of the written object is read back with exactly the algorithm/value typed from the text written for
   it ("type:value"; C04_typed_checksum_roundtrip says that is (type, value) when neither contains ':'), and no other path appears *)
From PM Require Import Proofs.TreeInfoChecksums.
Theorem C04_checksums_read_back :
  forall x mv t x', ser_ti x mv = Ok t -> deser_ti t = Ok x' -> NoDup (map fst (ti_checksums x)) ->
  (forall c, In c (ti_checksums x) -> exists tc, typed_checksum (ck_text c) = Ok tc /\ assoc (fst c) (ti_checksums x') = Some tc) /\
  (forall p, ~ In p (map fst (ti_checksums x)) -> assoc p (ti_checksums x') = None).
Proof. exact checksums_read_back. Qed.
Print Assumptions C04_checksums_read_back.

(* [images-<platform>]: every image table of the written object is read back under its platform with exactly its (name, path)
   entries, and no other platform appears.  The reader strips a "-<arch>" suffix from section names (a historical spelling), so the
   statement is for platforms that are the architecture itself or do not end in "-<arch>" - where <arch> is the architecture read
   back, which C04_release_and_tree_read_back equates with the one written.  The proof needs that the written table never holds
   two sections of one name (also proved: every writer step opens a fresh section or sets an option in an existing one). *)
From PM Require Import Proofs.TreeInfoSections Proofs.TreeInfoImages.
Theorem C04_image_tables_are_read_back :
  forall x mv t x', ser_ti x mv = Ok t -> deser_ti t = Ok x' -> NoDup (map fst (ti_images x)) ->
  (forall pi, In pi (ti_images x) -> NoDup (map fst (snd pi))) ->
  (forall a, getf (ti_tree x') (F"arch") = PStr a ->
     forall pi, In pi (ti_images x) -> fst pi = a \/ endswith (fst pi) (c_dash :: a) = false) ->
  (forall pi, In pi (ti_images x) ->
     exists tab, assoc (fst pi) (ti_images x') = Some tab /\ forall n v, In (n, v) tab <-> In (n, v) (snd pi)) /\
  (forall k, ~ In k (map fst (ti_images x)) -> assoc k (ti_images x') = None).
Proof. exact images_read_back. Qed.
Print Assumptions C04_image_tables_are_read_back.

Example C04_image_tables_nonvacuous :
  exists t x', ser_ti ex_ti_images None = Ok t /\ deser_ti t = Ok x' /\ NoDup (map fst (ti_images ex_ti_images)) /\
    (forall pi, In pi (ti_images ex_ti_images) -> NoDup (map fst (snd pi))) /\
    getf (ti_tree x') (F"arch") = PStr (F"x86_64") /\
    (forall pi, In pi (ti_images ex_ti_images) -> fst pi = F"x86_64" \/ endswith (fst pi) (c_dash :: F"x86_64") = false) /\
    assoc (F"xen") (ti_images x') = Some [(F"kernel", PStr (F"images/pxeboot/vmlinuz-xen"))].
Proof. exact images_read_back_nonvacuous. Qed.

(* the written table never holds two sections of one name *)
Theorem C04_written_section_names_are_distinct :
  forall x mv t, ser_ti x mv = Ok t -> NoDup (map fst t).
Proof. intros x mv t H. destruct (ser_ti_images_stage x mv t H) as (p10 & p11 & N & _). exact N. Qed.
Print Assumptions C04_written_section_names_are_distinct.

(* .discinfo: the reader returns exactly the object the writer was given - the timestamp (a canonical decimal token: such a token
   is the repr of the float it denotes, CPython's float()/repr() are trusted for that), a description and an architecture that fit
   on a line (non-empty, no newline, no outer blanks; the description not wrapped in quotes), and 'ALL' or any non-empty list of
   integers of any size - and the validators accept it again *)
From PM Require Import Proofs.DiscInfoRoundtrip.
Theorem C04_discinfo_roundtrip :
  forall t desc arch nums text,
  let d := {| di_timestamp := PFloat t; di_description := PStr desc; di_arch := PStr arch; di_disc_numbers := PList nums |} in
  canonical_float t = true -> text_line desc -> strip_quotes desc = desc -> text_line arch ->
  (nums = [PStr (F"ALL")] \/ exists zs, zs <> [] /\ nums = map PInt zs) ->
  dump_di d = Ok text -> load_di text = Ok d.
Proof. exact di_roundtrip. Qed.
Print Assumptions C04_discinfo_roundtrip.

Example C04_discinfo_roundtrip_nonvacuous :
  let d := {| di_timestamp := PFloat (F"1440000000.123"); di_description := PStr (F"Fedora 22"); di_arch := PStr (F"x86_64");
              di_disc_numbers := PList (map PInt [1; 2; 3]%Z) |} in
  canonical_float (F"1440000000.123") = true /\ text_line (F"Fedora 22") /\ strip_quotes (F"Fedora 22") = F"Fedora 22" /\
  text_line (F"x86_64") /\ dump_di d = Ok (join [c_nl] [F"1440000000.123"; F"Fedora 22"; F"x86_64"; F"1,2,3"]) /\
  load_di (join [c_nl] [F"1440000000.123"; F"Fedora 22"; F"x86_64"; F"1,2,3"]) = Ok d.
Proof. exact di_roundtrip_nonvacuous. Qed.

(* ... and with the hypotheses as an executable test, which the harness runs on every generated .discinfo object *)
Theorem C04_discinfo_roundtrip_checked :
  forall d text, di_applicableb d = true -> dump_di d = Ok text -> load_di text = Ok d.
Proof. exact di_roundtrip_checked. Qed.
Print Assumptions C04_discinfo_roundtrip_checked.

(* variants: in a tree whose top-level variants have no children, every variant the reader returns for the written table is one of
   the written variants, with exactly its id, uid, name and type, no children, and every one of the path kinds of the regenerated
   table equal to what was written (a set path as written, an unset one as None).  Proof: the variant writer leaves in its own,
   fresh section exactly these options; no other writer step touches a [variant-*]/[addon-*] section; the reader reads that section. *)
From PM Require Import Proofs.TreeInfoVariants.
Theorem C04_flat_variants_read_back :
  forall x mv t x', ser_ti x mv = Ok t -> deser_ti t = Ok x' -> (forall kv, In kv (ti_variants x) -> flat kv) ->
  forall key v', In (key, v') (ti_variants x') ->
  exists kv, In kv (ti_variants x) /\
    tv_fields v' = [(F"id", getf (tv_fields (snd kv)) (F"id")); (F"uid", getf (tv_fields (snd kv)) (F"uid"));
                    (F"name", getf (tv_fields (snd kv)) (F"name")); (F"type", getf (tv_fields (snd kv)) (F"type"))] /\
    tv_children v' = [] /\
    (forall fld, In fld TI_PATH_FIELDS -> getf (tv_paths v') fld = getf (tv_paths (snd kv)) fld).
Proof. exact flat_variants_read_back. Qed.
Print Assumptions C04_flat_variants_read_back.

(* ... and every written variant is returned: for top-level variants that are not of type 'addon' (a top-level variant is read from
   [variant-<uid>], an addon would have been written to [addon-<uid>]) and whose UIDs contain no comma (the [tree] variants list is
   comma-separated).  With the theorem above: the variants read are exactly the variants written, fact by fact. *)
Theorem C04_flat_variants_are_all_read_back :
  forall x mv t x', ser_ti x mv = Ok t -> deser_ti t = Ok x' -> (forall kv, In kv (ti_variants x) -> flat kv) ->
  (forall kv, In kv (ti_variants x) -> py_eq (getf (tv_fields (snd kv)) (F"type")) (PStr (F"addon")) = false) ->
  (forall kv u, In kv (ti_variants x) -> getf (tv_fields (snd kv)) (F"uid") = PStr u -> ~ In c_comma u) ->
  forall kv, In kv (ti_variants x) -> exists key v', In (key, v') (ti_variants x') /\ facts_of kv v'.
Proof. exact flat_variants_complete. Qed.
Print Assumptions C04_flat_variants_are_all_read_back.

Example C04_flat_variants_nonvacuous :
  exists t x' v', ser_ti ex_ti None = Ok t /\ deser_ti t = Ok x' /\ (forall kv, In kv (ti_variants ex_ti) -> flat kv) /\
    (forall kv, In kv (ti_variants ex_ti) -> py_eq (getf (tv_fields (snd kv)) (F"type")) (PStr (F"addon")) = false) /\
    (forall kv u, In kv (ti_variants ex_ti) -> getf (tv_fields (snd kv)) (F"uid") = PStr u -> ~ In c_comma u) /\
    In (F"Server", v') (ti_variants x') /\ getf (tv_paths v') (F"packages") = PStr (F"Packages").
Proof. exact flat_variants_nonvacuous. Qed.

(* the base product: read back name/version/short for a layered release; a release that is not layered is read with none *)
From PM Require Import Proofs.TreeInfoBaseProduct.
Theorem C04_base_product_read_back :
  forall x mv t x', ser_ti x mv = Ok t -> deser_ti t = Ok x' ->
  if truthy (getf (ti_release x) (F"is_layered"))
  then getf (ti_base_product x') (F"name") = getf (ti_base_product x) (F"name") /\
       getf (ti_base_product x') (F"version") = getf (ti_base_product x) (F"version") /\
       getf (ti_base_product x') (F"short") = getf (ti_base_product x) (F"short")
  else ti_base_product x' = [(F"name", PNone); (F"short", PNone); (F"version", PNone)].
Proof. exact base_product_read_back. Qed.
Print Assumptions C04_base_product_read_back.

Example C04_base_product_nonvacuous :
  exists t x', ser_ti ex_ti_layered None = Ok t /\ deser_ti t = Ok x' /\ truthy (getf (ti_release ex_ti_layered) (F"is_layered")) = true /\
    getf (ti_base_product x') (F"short") = PStr (F"RHEL").
Proof. exact base_product_nonvacuous. Qed.

(* the re-read top-level variants are keyed by their UIDs, each key once (whatever their number or shape) *)
Theorem C04_reread_variants_keyed_by_uid :
  forall x mv t x', ser_ti x mv = Ok t -> deser_ti t = Ok x' ->
  NoDup (map fst (ti_variants x')) /\ (forall k v, In (k, v) (ti_variants x') -> k = fmt_s (getf (tv_fields v) (F"uid"))).
Proof. exact reread_variants_keyed_by_uid. Qed.
Print Assumptions C04_reread_variants_keyed_by_uid.
