(* C02 - image manifests survive a write/read cycle unchanged *)
From PM Require Import Base.PyVal Base.Obj Model.Common Model.Images Proofs.CommonProofs Proofs.ImagesRoundtrip Gen.Tables.

(* every image the library agrees to write is read back with all fifteen attributes unchanged *)
Theorem C02_image_roundtrip :
  forall o j, image_normal o -> ser_image o = Ok j -> deser_image VERSION j = Ok o.
Proof. exact image_roundtrip. Qed.
Print Assumptions C02_image_roundtrip.

Theorem C02_image_roundtrip_fields :
  forall o j o', image_normal o -> ser_image o = Ok j -> deser_image VERSION j = Ok o' ->
  forall f, In f IMAGE_FIELDS -> getf o' f = getf o f.
Proof. exact image_roundtrip_fields. Qed.
Print Assumptions C02_image_roundtrip_fields.

(* the compose section is intact (shared with the other formats) *)
Theorem C02_compose_roundtrip :
  forall c j rest, compose_normal c -> ser_compose c = Ok j ->
  deser_compose VERSION (PDict ((lit "compose", j) :: rest)) = Ok c.
Proof. exact deser_compose_ser. Qed.
Print Assumptions C02_compose_roundtrip.

(* manifest level (cell placement, no image gained or lost, byte-identical second write): decided by the
   roundtrip_images correspondence and the implementation-side oracle; the Coq statement over whole manifests
   - load_images (dump_images m) = Ok (sort_cells m) for m reachable by add - is not yet proved (partial). *)
