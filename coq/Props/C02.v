(* C02 - image manifests survive a write/read cycle unchanged *)
From PM Require Import Base.PyVal Base.Obj Model.Common Model.Images Proofs.CommonProofs Proofs.ImagesRoundtrip Gen.Tables.

(* every image the library agrees to write is read back with all fifteen attributes unchanged *)
Theorem C02_image_roundtrip :
  forall o j, image_normal o -> ser_image o = Ok j -> deser_image VERSION j = Ok o.
Proof. exact image_roundtrip. Qed.
Print Assumptions C02_image_roundtrip.

Theorem C02_image_roundtrip_fields :
  forall o j o', image_normal o -> ser_image o = Ok j -> deser_image VERSION j = Ok o' ->
  forall f, In f IMAGE_FIELDS -> getf o' f = getf o f.
Proof. exact image_roundtrip_fields. Qed.
Print Assumptions C02_image_roundtrip_fields.

(* the compose section is intact (shared with the other formats) *)
Theorem C02_compose_roundtrip :
  forall c j rest, compose_normal c -> ser_compose c = Ok j ->
  deser_compose VERSION (PDict ((lit "compose", j) :: rest)) = Ok c.
Proof. exact deser_compose_ser. Qed.
Print Assumptions C02_compose_roundtrip.

(* manifest level (cell placement, no image gained or lost, byte-identical second write): decided by the
   roundtrip_images correspondence and the implementation-side oracle; the Coq statement over whole manifests
   - load_images (dump_images m) = Ok (sort_cells m) for m reachable by add - is not yet proved (partial). *)

(* the whole manifest: every cell is read back with exactly its images (ordered by path, which is how they are written), cells
   without images are not written, the compose section is intact; the hypotheses hold for every manifest built by add calls *)
From PM Require Import Proofs.ImagesManifest Proofs.CommonProofs Proofs.ImagesProofs.
Theorem C02_manifest_roundtrip :
  forall st doc, wf_images st -> ser_images st = Ok doc ->
  exists st', deser_images doc = Ok st' /\ im_compose st' = im_compose st /\
              vals (im_cells st') = canon (vals (im_cells st)).
Proof. exact images_manifest_roundtrip. Qed.
Print Assumptions C02_manifest_roundtrip.

Theorem C02_manifest_second_write :
  forall st doc, wf_images st -> ser_images st = Ok doc ->
  exists st', deser_images doc = Ok st' /\ ser_images st' = Ok doc.
Proof. exact images_manifest_second_write. Qed.
Print Assumptions C02_manifest_second_write.

Theorem C02_reachable_manifests_are_well_formed :
  forall vt compose ops,
  vt_leb (1, 1) vt = true -> compose_normal compose -> (forall op, In op ops -> image_normal (snd (snd op))) ->
  wf_images {| im_version := current_version; im_compose := compose; im_cells := fold_left (apply_add vt) ops [] |}.
Proof. exact reach_wf. Qed.
Print Assumptions C02_reachable_manifests_are_well_formed.

(* nothing gained or lost: the written view holds exactly the manifest's images, cell by cell *)
Theorem C02_cells_keep_their_images : forall os, Permutation.Permutation os (sort_objs os).
Proof. exact sort_objs_perm. Qed.
Print Assumptions C02_cells_keep_their_images.
