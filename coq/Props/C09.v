(* C09 - image identity is unique within a manifest *)
From PM Require Import Base.PyVal Base.Obj Model.Common Model.Images Model.Manifests Proofs.ImagesProofs Gen.Tables.

(* In every manifest of format >= 1.1 reachable from a fresh one by ANY sequence of add calls
   (refused calls leave it as it was), no two images with the same identity have different checksums. *)
Theorem C09_reach_inv :
  forall vt ops, vt_leb (1, 1) vt = true -> Inv (fold_left (apply_add vt) ops []).
Proof. exact reach_inv. Qed.
Print Assumptions C09_reach_inv.

Theorem C09_add_preserves_inv :
  forall vt c v a img c', vt_leb (1, 1) vt = true -> Inv c -> images_add vt c v a img = Ok c' -> Inv c'.
Proof. exact add_preserves_inv. Qed.
Print Assumptions C09_add_preserves_inv.

(* an add is accepted iff the arch is a known binary arch and (from 1.1 on) no placed image collides;
   below 1.1 identity is not checked (the documented exemption); a refusal is ValueError *)
Theorem C09_add_accepts_iff :
  forall vt c v a img,
  (exists c', images_add vt c v a img = Ok c') <->
  mem_str a RPM_ARCHES = true /\ is_src_arch a = false /\ (vt_leb (1, 1) vt = true -> collides c (snd img) = false).
Proof. exact add_accepts_iff. Qed.
Print Assumptions C09_add_accepts_iff.

Theorem C09_add_refusal_class :
  forall vt c v a img e, images_add vt c v a img = Err e -> e = ValueError.
Proof. exact add_refusal_class. Qed.
Print Assumptions C09_add_refusal_class.

(* identity = the seven documented attributes (unified defaulting to False, additional_variants to []);
   re-checked against the regenerated UNIQUE_IMAGE_ATTRIBUTES *)
Theorem C09_identify_spec :
  forall a b, same_identity a b = true <->
  forall f, In f documented7 -> py_eq (identify_attr (getf a) f) (identify_attr (getf b) f) = true.
Proof. exact identify_spec. Qed.
Print Assumptions C09_identify_spec.

(* the identity computed from an Image object equals the identity computed from its serialised dictionary *)
Theorem C09_identify_ser :
  forall o d, ser_image o = Ok (PDict d) -> identify_dict d = identify_obj o.
Proof. exact identify_ser. Qed.
Print Assumptions C09_identify_ser.

(* ... and whatever loaded file produced the manifest: every image of a document goes through add (for source images of format
   <= 1.1 once per binary architecture), so a loaded manifest of format >= 1.1 satisfies the same invariant - equivalently, a
   document containing two images of one identity with different checksums is rejected on load *)
From PM Require Import Proofs.LoadUnique.
Theorem C09_loaded_manifest_is_unique :
  forall doc st v vt, deser_header images_mtype doc = Ok (v, vt) -> vt_leb (1, 1) vt = true ->
  load_images doc = Ok st -> Inv (im_cells st).
Proof. exact load_images_unique. Qed.
Print Assumptions C09_loaded_manifest_is_unique.
