(* C10 - source content is always filed under binary architectures *)
From PM Require Import Base.PyVal Base.Obj Model.Common Model.Images Model.Manifests Model.ManifestDocs
     Proofs.ImagesProofs Proofs.ArchProofs Gen.Tables.

(* adding is refused exactly for unknown / src / nosrc architectures (identity aside): see also C09_add_accepts_iff, C12_rpms_add_accepts_iff *)
Theorem C10_images_add_keeps_arch_ok :
  forall vt c v a img c', keys2_ok c -> images_add vt c v a img = Ok c' -> keys2_ok c'.
Proof. exact images_add_arch_ok. Qed.
Print Assumptions C10_images_add_keeps_arch_ok.

(* every images manifest reachable by any sequence of add calls has only known binary arch keys *)
Theorem C10_images_reach_arch_ok : forall vt ops, keys2_ok (fold_left (apply_add vt) ops []).
Proof. exact images_reach_arch_ok. Qed.
Print Assumptions C10_images_reach_arch_ok.

(* the loader files every image (src ones of a <= 1.1 document under each non-src arch of the variant) through add *)
Theorem C10_add_loaded_arch_ok :
  forall vt doc_arches c v a img c', keys2_ok c -> add_loaded vt doc_arches c v a img = Ok c' -> keys2_ok c'.
Proof. exact add_loaded_arch_ok. Qed.
Print Assumptions C10_add_loaded_arch_ok.

Theorem C10_added_image_is_in_its_cell :
  forall vt c v a img c', images_add vt c v a img = Ok c' ->
  exists arches imgs, assoc v c' = Some arches /\ assoc a arches = Some imgs /\ In (fst img) (map fst imgs).
Proof. exact in_cell_after_add. Qed.
Print Assumptions C10_added_image_is_in_its_cell.

(* rpms: every manifest reachable by add calls, and every manifest converted from format 0.3, has only known binary arch keys *)
Theorem C10_rpms_reach_arch_ok : forall ops, keys2_ok (fold_left apply_rpms_add ops []).
Proof. exact rpms_reach_arch_ok. Qed.
Print Assumptions C10_rpms_reach_arch_ok.

Theorem C10_rpms_03_arch_ok : forall manifest m, deser_rpms_0_3 manifest = Ok m -> keys2_ok m.
Proof. exact rpms_03_arch_ok. Qed.
Print Assumptions C10_rpms_03_arch_ok.

(* the positive clause. Images: a source image of a <= 1.1 document is filed under EACH non-src architecture its variant lists
   (and nothing already filed is lost) *)
From PM Require Import Proofs.RefileProofs.
Theorem C10_src_image_refiled_under_each_binary_arch :
  forall vt doc_arches c v img c',
  vt_leb vt (1, 1) = true -> add_loaded vt doc_arches c v s_src img = Ok c' ->
  (forall a, In a doc_arches -> a <> s_src -> in_cell c' v a (fst img)) /\
  (forall v1 a1 i, in_cell c v1 a1 i -> in_cell c' v1 a1 i).
Proof. exact add_loaded_refiles. Qed.
Print Assumptions C10_src_image_refiled_under_each_binary_arch.

(* Rpms, format 0.3: a source package listed in the variant's 'src' table is filed, under its canonical name, under each binary
   architecture that lists at least one package built from it *)
Theorem C10_rpms_03_source_refiled :
  forall man m, deser_rpms_0_3 man = Ok m ->
  forall variants v vd arches a ad srpms sr rd srctab sd rpms,
    items man = Ok variants -> In (v, vd) variants ->
    items vd = Ok arches -> In (a, ad) arches -> a <> s_src ->
    items ad = Ok srpms -> In (sr, rd) srpms ->
    dget_default vd s_src (PDict []) = Ok srctab -> dget_default srctab sr PNone = Ok sd -> sd <> PNone ->
    items rd = Ok rpms -> rpms <> [] ->
    src_filed sr v a m.
Proof. exact rpms_03_refiles. Qed.
Print Assumptions C10_rpms_03_source_refiled.

(* "unknown name" is measured against the documented architecture table: every documented name is in the regenerated one *)
From PM Require Import Proofs.DocArches.
Theorem C10_documented_architectures_are_known :
  forall a, In a DOC_RPM_ARCHES -> mem_str a RPM_ARCHES = true.
Proof. exact documented_arch_is_known. Qed.
Print Assumptions C10_documented_architectures_are_known.
