(* C17 - the legacy [general] section mirrors the authoritative sections *)
From PM Require Import Base.PyVal Base.Obj Base.Ini Model.Common Model.TreeInfo Proofs.IniProofs.

(* for every tree and every choice of main variant, whenever the writer produces a [general] section:
   family / version / name / arch / platforms / timestamp equal the [release] name and version, '<name> <version>',
   the [tree] arch, the [tree] platforms (always including the arch) and the integer build timestamp; 'variant' is the
   requested main variant or else the alphabetically first top-level variant; packagedir / repository are that
   variant's packages / repository, in a 'src' tree falling back to its source packages / repository *)
Theorem C17_general_mirror :
  forall x mv p t,
  ser_general x mv p = Ok t ->
  exists name_s ver_s arch_s ts ts_s variant v,
    getf (ti_release x) (lit "name") = PStr name_s /\ getf (ti_release x) (lit "version") = PStr ver_s /\
    getf (ti_tree x) (lit "arch") = PStr arch_s /\
    py_int (getf (ti_tree x) (lit "build_timestamp")) = Ok ts /\ py_str_num ts = Ok ts_s /\
    ini_get t g (lit "family") = Ok name_s /\ ini_get t g (lit "version") = Ok ver_s /\
    ini_get t g (lit "name") = Ok (name_s ++ 32%N :: ver_s) /\
    ini_get t g (lit "arch") = Ok arch_s /\ ini_get t g (lit "platforms") = Ok (platforms_str (ti_tree x)) /\
    ini_get t g (lit "timestamp") = Ok ts_s /\
    ini_get t g (lit "variants") = Ok (join [c_comma] (map fst (ComposeInfo.sort_keys (ti_variants x)))) /\
    variant = match mv with Some m => m | None => hd [] (map fst (ComposeInfo.sort_keys (ti_variants x))) end /\
    (mv = None -> map fst (ComposeInfo.sort_keys (ti_variants x)) <> []) /\
    ini_get t g (lit "variant") = Ok variant /\
    assoc variant (ti_variants x) = Some v /\
    (forall pk, getf (tv_paths v) (lit "packages") = PStr pk -> ini_get t g (lit "packagedir") = Ok pk) /\
    (forall r, getf (tv_paths v) (lit "repository") = PStr r -> ini_get t g (lit "repository") = Ok r) /\
    (getf (tv_paths v) (lit "packages") = PNone -> getf (ti_tree x) (lit "arch") = PStr (lit "src") ->
       forall s, getf (tv_paths v) (lit "source_packages") = PStr s -> ini_get t g (lit "packagedir") = Ok s) /\
    (getf (tv_paths v) (lit "repository") = PNone -> getf (ti_tree x) (lit "arch") = PStr (lit "src") ->
       forall s, getf (tv_paths v) (lit "source_repository") = PStr s -> ini_get t g (lit "repository") = Ok s).
Proof. exact general_mirror. Qed.
Print Assumptions C17_general_mirror.
