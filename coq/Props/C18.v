(* C18 - a dump that fails validation leaves the destination file untouched *)
From PM Require Import Base.PyVal Base.Json Model.Common Model.Dump Proofs.DumpProofs.

(* whatever the outcome of validating and serialising the object (any format, any nested failure point):
   a failed dump leaves every file - the destination included - exactly as it was; none is created *)
Theorem C18_dump_atomic :
  forall ser f p e, snd (dump_path ser f p) = Err e -> fst (dump_path ser f p) = f.
Proof. exact dump_atomic. Qed.
Print Assumptions C18_dump_atomic.

Theorem C18_dump_ok_writes :
  forall ser f p, snd (dump_path ser f p) = Ok tt ->
  exists d, ser = Ok d /\ assoc p (fst (dump_path ser f p)) = Some (print_json d) /\
            forall q, q <> p -> assoc q (fst (dump_path ser f p)) = assoc q f.
Proof. exact dump_ok_writes. Qed.
Print Assumptions C18_dump_ok_writes.

(* the validate / open / serialise order the code used to have does NOT have the property (defect D1) *)
Theorem C18_open_first_refuted :
  exists f p e, assoc p f = Some (lit "last good copy") /\
    snd (dump_path_open_first (Ok tt) (Err e) f p) = Err e /\
    assoc p (fst (dump_path_open_first (Ok tt) (Err e) f p)) = Some [].
Proof. exact dump_open_first_refuted. Qed.
Print Assumptions C18_open_first_refuted.
