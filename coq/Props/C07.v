(* C07 - documents violating a documented constraint are rejected on load *)
From PM Require Import Base.PyVal Base.Obj Model.Common Proofs.ManifestsProofs Proofs.PyValProofs Gen.Tables.

(* the header gate: from format 1.1 on, a document naming another metadata type is rejected with ValueError;
   a version that does not validate is rejected *)
Theorem C07_header_gate :
  forall mtype doc h v vt t,
  dget doc (lit "header") = Ok h -> dget h (lit "version") = Ok v ->
  version_tuple (lit "common.Header") v = Ok vt -> vt_leb (1, 1) vt = true ->
  dget h (lit "type") = Ok t -> py_eq t (PStr mtype) = false ->
  deser_header mtype doc = Err ValueError.
Proof.
  intros mtype doc h v vt t Hh Hv Hvt Hle Ht Hne. unfold deser_header.
  rewrite Hh. cbn [bind]. rewrite Hv. cbn [bind]. rewrite Hvt. cbn [bind]. rewrite Hle, Ht. cbn [bind]. rewrite Hne. reflexivity.
Qed.
Print Assumptions C07_header_gate.

Theorem C07_header_malformed_version :
  forall mtype doc h v e,
  dget doc (lit "header") = Ok h -> dget h (lit "version") = Ok v ->
  version_tuple (lit "common.Header") v = Err e -> deser_header mtype doc = Err e.
Proof.
  intros mtype doc h v e Hh Hv Hvt. unfold deser_header. rewrite Hh. cbn [bind]. rewrite Hv. cbn [bind]. rewrite Hvt. reflexivity.
Qed.
Print Assumptions C07_header_malformed_version.

(* whatever compose section a successful load returns has passed the regenerated Compose validators *)
Theorem C07_loaded_compose_is_valid :
  forall vt payload c, deser_compose vt payload = Ok c -> validate compose_cls c = Ok tt.
Proof.
  intros vt payload c H. unfold deser_compose in H.
  inv_bind H as sec G1. inv_bind H as id G2. inv_bind H as label0 G3. inv_bind H as ty G4. inv_bind H as dtr G5.
  destruct dtr as [[date ty'] respin]. inv_bind H as final0 G6.
  match type of H with (check ?v; _) = _ => destruct v as [[]|e] eqn:Hv; cbn [bind] in H; [|discriminate] end.
  injection H as <-. exact Hv.
Qed.
Print Assumptions C07_loaded_compose_is_valid.

(* what a successful load returns satisfies what writing enforces *)
From PM Require Import Proofs.LoadValid Proofs.ImagesManifest Model.Images Model.ComposeInfo.
Theorem C07_loaded_images_are_valid :
  forall doc st, load_images doc = Ok st -> cells_valid (im_cells st) /\ validate compose_cls (im_compose st) = Ok tt.
Proof. exact load_images_valid. Qed.
Print Assumptions C07_loaded_images_are_valid.

Theorem C07_loaded_images_are_writable : forall doc st, load_images doc = Ok st -> exists doc', ser_images st = Ok doc'.
Proof. exact load_images_writable. Qed.
Print Assumptions C07_loaded_images_are_writable.

Theorem C07_loaded_composeinfo_is_valid :
  forall doc x, load_ci doc = Ok x ->
  validate compose_cls (ci_compose x) = Ok tt /\ validate release_cls (ci_release x) = Ok tt /\
  (truthy (getf (ci_release x) (F"is_layered")) = true -> validate bp_cls (ci_base_product x) = Ok tt) /\
  children_valid None (ci_variants x).
Proof. exact load_ci_valid. Qed.
Print Assumptions C07_loaded_composeinfo_is_valid.

(* treeinfo: everything a successful load returns has passed the validators the writer runs - release, base product (when
   layered), tree, EVERY variant of the tree in the context of its parent, the variants container, checksum paths, image paths
   and platforms, stage2, media (formats 0.3 and later; pre-productmd files go through Model/TreeInfo00.v) *)
From PM Require Import Base.Ini Model.TreeInfo Proofs.TreeInfoLoadValid.
Theorem C07_loaded_treeinfo_is_valid :
  forall t x, deser_ti t = Ok x ->
  tvalidate (F"treeinfo.Release") (ti_release x) = Ok tt /\
  (truthy (getf (ti_release x) (F"is_layered")) = true -> tvalidate (F"treeinfo.BaseProduct") (ti_base_product x) = Ok tt) /\
  tvalidate (F"treeinfo.Tree") (ti_tree x) = Ok tt /\
  ti_variants_valid (ti_variants x) /\
  tvalidate (F"treeinfo.Variants") [(F"_children", PList (map (tv_child_entry true) (sort_keys (ti_variants x))))] = Ok tt /\
  tvalidate (F"treeinfo.Checksums") [(F"_checksum_paths", PList (map (fun c => PStr (fst c)) (ti_checksums x)))] = Ok tt /\
  tvalidate (F"treeinfo.Images") (images_ctx x) = Ok tt /\
  tvalidate (F"treeinfo.Stage2") (ti_stage2 x) = Ok tt /\
  tvalidate (F"treeinfo.Media") (ti_media x) = Ok tt.
Proof. exact load_ti_valid. Qed.
Print Assumptions C07_loaded_treeinfo_is_valid.

(* the header-version gate is exactly the documented syntax: the regenerated pattern of Header._validate_version accepts
   <digits>.<digits> (Python's $ also admits one trailing newline, O1) and nothing else *)
From PM Require Import Base.Regex Proofs.LangProofs2 Gen.Regexes.
Theorem C07_header_version_language :
  forall s, re_matches re_header_version s = true <-> exists body, (s = body \/ s = body ++ [c_nl]) /\ DocHeaderVersion body.
Proof. exact header_version_lang. Qed.
Print Assumptions C07_header_version_language.
