#!/bin/bash
# runs every registered quick (or $1=thorough) check, 4 at a time; prints one line per property
cd "$(dirname "$0")"
tier=${1:-quick}
ids=$(python3 -c "import json; print(' '.join(c['property_id'] for c in json.load(open('MANIFEST.json'))['checks']))")
mkdir -p .work/logs
echo $ids | tr ' ' '\n' | xargs -P 4 -I{} sh -c "timeout 3000 ./check {} --tier $tier > .work/logs/{}.log 2>&1; echo {} rc=\$? \$(tail -1 .work/logs/{}.log | cut -c1-150)"
