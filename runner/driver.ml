(* Reads one case per line: "<entry> <pyval tokens>", applies the extracted model
   entry, prints the resulting pyval tokens.  Wire format (space separated):
     n | t | f | i <int> | x <len> <cp>* | s <len> <cp>* | l <len> <val>* | d <len> (<s-token> <val>)*
   Integers are limited to OCaml's 63-bit ints (generators stay below 2^62). *)
open Model

let rec pos_of_int i =
  if i = 1 then XH
  else if i land 1 = 0 then XO (pos_of_int (i lsr 1))
  else XI (pos_of_int (i lsr 1))
let n_of_int i = if i = 0 then N0 else Npos (pos_of_int i)
let z_of_int i = if i = 0 then Z0 else if i > 0 then Zpos (pos_of_int i) else Zneg (pos_of_int (-i))
let rec int_of_pos = function XH -> 1 | XO p -> 2 * int_of_pos p | XI p -> 2 * int_of_pos p + 1
let int_of_n = function N0 -> 0 | Npos p -> int_of_pos p
let int_of_z = function Z0 -> 0 | Zpos p -> int_of_pos p | Zneg p -> - (int_of_pos p)

let toks = ref [||]
let ix = ref 0
let next () = let t = !toks.(!ix) in incr ix; t
let next_int () = int_of_string (next ())

let read_str () =
  let n = next_int () in
  let rec go k acc = if k = 0 then List.rev acc else go (k - 1) (n_of_int (next_int ()) :: acc) in
  go n []

let rec read_val () =
  match next () with
  | "n" -> PNone
  | "t" -> PBool true
  | "f" -> PBool false
  | "i" -> PInt (z_of_int (next_int ()))
  | "x" -> PFloat (read_str ())
  | "s" -> PStr (read_str ())
  | "l" ->
      let n = next_int () in
      let rec go k acc = if k = 0 then List.rev acc else let v = read_val () in go (k - 1) (v :: acc) in
      PList (go n [])
  | "d" ->
      let n = next_int () in
      let rec go k acc =
        if k = 0 then List.rev acc
        else begin
          (match next () with "s" -> () | _ -> failwith "dict key must be s");
          let key = read_str () in
          let v = read_val () in
          go (k - 1) ((key, v) :: acc)
        end in
      PDict (go n [])
  | t -> failwith ("bad token " ^ t)

let buf = Buffer.create 65536
let put s = Buffer.add_string buf s; Buffer.add_char buf ' '
let put_str s =
  put (string_of_int (List.length s));
  List.iter (fun c -> put (string_of_int (int_of_n c))) s

let rec write_val = function
  | PNone -> put "n"
  | PBool true -> put "t"
  | PBool false -> put "f"
  | PInt z -> put "i"; put (string_of_int (int_of_z z))
  | PFloat s -> put "x"; put_str s
  | PStr s -> put "s"; put_str s
  | PList l -> put "l"; put (string_of_int (List.length l)); List.iter write_val l
  | PDict kv ->
      put "d"; put (string_of_int (List.length kv));
      List.iter (fun (k, v) -> put "s"; put_str k; write_val v) kv

let str_of_ocaml s = List.init (String.length s) (fun i -> n_of_int (Char.code s.[i]))

let () =
  let table = Hashtbl.create 64 in
  List.iter (fun (name, f) ->
      let key = String.concat "" (List.map (fun c -> String.make 1 (Char.chr (int_of_n c))) name) in
      Hashtbl.replace table key f) entries;
  (try
     while true do
       let line = input_line stdin in
       let parts = Array.of_list (List.filter (fun s -> s <> "") (String.split_on_char ' ' line)) in
       if Array.length parts > 0 then begin
         toks := parts; ix := 1;
         Buffer.clear buf;
         (match Hashtbl.find_opt table parts.(0) with
          | None -> put "s"; put_str (str_of_ocaml ("no-entry:" ^ parts.(0)))
          | Some f ->
              (try write_val (f (read_val ()))
               with Stack_overflow -> Buffer.clear buf; put "s"; put_str (str_of_ocaml "stack-overflow")
                  | Failure m -> Buffer.clear buf; put "s"; put_str (str_of_ocaml ("driver-failure:" ^ m))));
         print_string (Buffer.contents buf); print_newline ()
       end
     done
   with End_of_file -> ())
